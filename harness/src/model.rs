//! Harness-side model of Zerv objects (schema + vars): plain serialisable data used by the
//! generators, the reference models and the replay files; converted to zerv's own types
//! only to feed zerv.
use serde::{Deserialize, Serialize};
use zerv::version::zerv::{Component, Precedence, PrecedenceOrder, PreReleaseLabel, PreReleaseVar, Var, ZervSchema, ZervVars};
use zerv::version::Zerv;

#[derive(Debug, Clone, Hash, PartialEq, Eq, Serialize, Deserialize)]
pub enum MVar {
    Major,
    Minor,
    Patch,
    Epoch,
    PreRelease,
    Post,
    Dev,
    Distance,
    Dirty,
    BumpedBranch,
    BumpedCommitHash,
    BumpedCommitHashShort,
    BumpedTimestamp,
    LastBranch,
    LastCommitHash,
    LastCommitHashShort,
    LastTimestamp,
    Custom(String),
    Ts(String),
}
impl MVar {
    pub fn is_primary(&self) -> bool {
        matches!(self, MVar::Major | MVar::Minor | MVar::Patch)
    }
    pub fn is_secondary(&self) -> bool {
        matches!(self, MVar::Epoch | MVar::PreRelease | MVar::Post | MVar::Dev)
    }
    pub fn to_zerv(&self) -> Var {
        match self {
            MVar::Major => Var::Major,
            MVar::Minor => Var::Minor,
            MVar::Patch => Var::Patch,
            MVar::Epoch => Var::Epoch,
            MVar::PreRelease => Var::PreRelease,
            MVar::Post => Var::Post,
            MVar::Dev => Var::Dev,
            MVar::Distance => Var::Distance,
            MVar::Dirty => Var::Dirty,
            MVar::BumpedBranch => Var::BumpedBranch,
            MVar::BumpedCommitHash => Var::BumpedCommitHash,
            MVar::BumpedCommitHashShort => Var::BumpedCommitHashShort,
            MVar::BumpedTimestamp => Var::BumpedTimestamp,
            MVar::LastBranch => Var::LastBranch,
            MVar::LastCommitHash => Var::LastCommitHash,
            MVar::LastCommitHashShort => Var::LastCommitHashShort,
            MVar::LastTimestamp => Var::LastTimestamp,
            MVar::Custom(s) => Var::Custom(s.clone()),
            MVar::Ts(s) => Var::Timestamp(s.clone()),
        }
    }
    pub fn from_zerv(v: &Var) -> MVar {
        match v {
            Var::Major => MVar::Major,
            Var::Minor => MVar::Minor,
            Var::Patch => MVar::Patch,
            Var::Epoch => MVar::Epoch,
            Var::PreRelease => MVar::PreRelease,
            Var::Post => MVar::Post,
            Var::Dev => MVar::Dev,
            Var::Distance => MVar::Distance,
            Var::Dirty => MVar::Dirty,
            Var::BumpedBranch => MVar::BumpedBranch,
            Var::BumpedCommitHash => MVar::BumpedCommitHash,
            Var::BumpedCommitHashShort => MVar::BumpedCommitHashShort,
            Var::BumpedTimestamp => MVar::BumpedTimestamp,
            Var::LastBranch => MVar::LastBranch,
            Var::LastCommitHash => MVar::LastCommitHash,
            Var::LastCommitHashShort => MVar::LastCommitHashShort,
            Var::LastTimestamp => MVar::LastTimestamp,
            Var::Custom(s) => MVar::Custom(s.clone()),
            Var::Timestamp(s) => MVar::Ts(s.clone()),
        }
    }
}

#[derive(Debug, Clone, Hash, PartialEq, Eq, Serialize, Deserialize)]
pub enum MComp {
    Str(String),
    UInt(u64),
    Var(MVar),
}
impl MComp {
    pub fn to_zerv(&self) -> Component {
        match self {
            MComp::Str(s) => Component::Str(s.clone()),
            MComp::UInt(n) => Component::UInt(*n),
            MComp::Var(v) => Component::Var(v.to_zerv()),
        }
    }
    pub fn from_zerv(c: &Component) -> MComp {
        match c {
            Component::Str(s) => MComp::Str(s.clone()),
            Component::UInt(n) => MComp::UInt(*n),
            Component::Var(v) => MComp::Var(MVar::from_zerv(v)),
        }
    }
}

#[derive(Debug, Clone, Hash, PartialEq, Eq, Serialize, Deserialize, Default)]
pub struct MSchema {
    pub core: Vec<MComp>,
    pub extra_core: Vec<MComp>,
    pub build: Vec<MComp>,
    /// custom `precedence_order` as indices into PRECEDENCE_NAMES; empty = the default order
    #[serde(default)]
    pub precedence: Vec<u8>,
}
pub const PRECEDENCE_NAMES: [&str; 11] = ["Epoch", "Major", "Minor", "Patch", "Core", "PreReleaseLabel", "PreReleaseNum", "Post", "Dev", "ExtraCore", "Build"];
fn precedence_of(i: u8) -> Precedence {
    match i % 11 {
        0 => Precedence::Epoch,
        1 => Precedence::Major,
        2 => Precedence::Minor,
        3 => Precedence::Patch,
        4 => Precedence::Core,
        5 => Precedence::PreReleaseLabel,
        6 => Precedence::PreReleaseNum,
        7 => Precedence::Post,
        8 => Precedence::Dev,
        9 => Precedence::ExtraCore,
        _ => Precedence::Build,
    }
}
fn precedence_index(p: &Precedence) -> u8 {
    match p {
        Precedence::Epoch => 0,
        Precedence::Major => 1,
        Precedence::Minor => 2,
        Precedence::Patch => 3,
        Precedence::Core => 4,
        Precedence::PreReleaseLabel => 5,
        Precedence::PreReleaseNum => 6,
        Precedence::Post => 7,
        Precedence::Dev => 8,
        Precedence::ExtraCore => 9,
        Precedence::Build => 10,
    }
}
impl MSchema {
    pub fn to_zerv(&self) -> Result<ZervSchema, String> {
        ZervSchema::new_with_precedence(
            self.core.iter().map(|c| c.to_zerv()).collect(),
            self.extra_core.iter().map(|c| c.to_zerv()).collect(),
            self.build.iter().map(|c| c.to_zerv()).collect(),
            if self.precedence.is_empty() { PrecedenceOrder::default() } else { PrecedenceOrder::from_precedences(self.precedence.iter().map(|i| precedence_of(*i)).collect()) },
        )
        .map_err(|e| e.to_string())
    }
    pub fn from_zerv(s: &ZervSchema) -> MSchema {
        MSchema {
            core: s.core().iter().map(MComp::from_zerv).collect(),
            extra_core: s.extra_core().iter().map(MComp::from_zerv).collect(),
            build: s.build().iter().map(MComp::from_zerv).collect(),
            precedence: {
                let v: Vec<u8> = s.precedence_order().iter().map(precedence_index).collect();
                if v == (0u8..11).collect::<Vec<_>>() { vec![] } else { v }
            },
        }
    }
    /// RON text of the schema as a user would write it for --schema-ron
    pub fn to_ron(&self) -> String {
        fn esc(s: &str) -> String {
            let mut o = String::from("\"");
            for c in s.chars() {
                match c {
                    '"' => o.push_str("\\\""),
                    '\\' => o.push_str("\\\\"),
                    '\n' => o.push_str("\\n"),
                    '\r' => o.push_str("\\r"),
                    '\t' => o.push_str("\\t"),
                    c => o.push(c),
                }
            }
            o.push('"');
            o
        }
        fn comp(c: &MComp) -> String {
            match c {
                MComp::Str(s) => format!("str({})", esc(s)),
                MComp::UInt(n) => format!("uint({n})"),
                MComp::Var(MVar::Custom(s)) => format!("var(custom({}))", esc(s)),
                MComp::Var(MVar::Ts(s)) => format!("var(ts({}))", esc(s)),
                MComp::Var(v) => format!("var({v:?})"),
            }
        }
        let sec = |v: &Vec<MComp>| v.iter().map(comp).collect::<Vec<_>>().join(", ");
        let prec = if self.precedence.is_empty() {
            String::new()
        } else {
            format!(", precedence_order: [{}]", self.precedence.iter().map(|i| PRECEDENCE_NAMES[*i as usize % 11]).collect::<Vec<_>>().join(", "))
        };
        format!("(core: [{}], extra_core: [{}], build: [{}]{prec})", sec(&self.core), sec(&self.extra_core), sec(&self.build))
    }
    pub fn all(&self) -> impl Iterator<Item = &MComp> {
        self.core.iter().chain(self.extra_core.iter()).chain(self.build.iter())
    }
}

/// JSON of custom variables, kept as text (so cases are hashable and printable)
#[derive(Debug, Clone, Hash, PartialEq, Eq, Serialize, Deserialize, Default)]
pub struct MVars {
    pub major: Option<u64>,
    pub minor: Option<u64>,
    pub patch: Option<u64>,
    pub epoch: Option<u64>,
    pub pre_release: Option<(u8, Option<u64>)>, // 0 alpha 1 beta 2 rc
    pub post: Option<u64>,
    pub dev: Option<u64>,
    pub distance: Option<u64>,
    pub dirty: Option<bool>,
    pub bumped_branch: Option<String>,
    pub bumped_commit_hash: Option<String>,
    pub bumped_timestamp: Option<u64>,
    pub last_branch: Option<String>,
    pub last_commit_hash: Option<String>,
    pub last_timestamp: Option<u64>,
    pub last_tag_version: Option<String>,
    pub custom_json: String, // "" = default ({})
}
pub const LABELS: [&str; 3] = ["alpha", "beta", "rc"];
impl MVars {
    pub fn custom(&self) -> serde_json::Value {
        if self.custom_json.is_empty() { serde_json::json!({}) } else { serde_json::from_str(&self.custom_json).unwrap_or(serde_json::json!({})) }
    }
    pub fn to_zerv(&self) -> ZervVars {
        ZervVars {
            major: self.major,
            minor: self.minor,
            patch: self.patch,
            epoch: self.epoch,
            pre_release: self.pre_release.map(|(l, n)| PreReleaseVar {
                label: [PreReleaseLabel::Alpha, PreReleaseLabel::Beta, PreReleaseLabel::Rc][l as usize % 3],
                number: n,
            }),
            post: self.post,
            dev: self.dev,
            distance: self.distance,
            dirty: self.dirty,
            bumped_branch: self.bumped_branch.clone(),
            bumped_commit_hash: self.bumped_commit_hash.clone(),
            bumped_timestamp: self.bumped_timestamp,
            last_branch: self.last_branch.clone(),
            last_commit_hash: self.last_commit_hash.clone(),
            last_timestamp: self.last_timestamp,
            last_tag_version: self.last_tag_version.clone(),
            custom: self.custom(),
        }
    }
    pub fn from_zerv(v: &ZervVars) -> MVars {
        MVars {
            major: v.major,
            minor: v.minor,
            patch: v.patch,
            epoch: v.epoch,
            pre_release: v.pre_release.as_ref().map(|p| {
                (
                    match p.label {
                        PreReleaseLabel::Alpha => 0,
                        PreReleaseLabel::Beta => 1,
                        PreReleaseLabel::Rc => 2,
                    },
                    p.number,
                )
            }),
            post: v.post,
            dev: v.dev,
            distance: v.distance,
            dirty: v.dirty,
            bumped_branch: v.bumped_branch.clone(),
            bumped_commit_hash: v.bumped_commit_hash.clone(),
            bumped_timestamp: v.bumped_timestamp,
            last_branch: v.last_branch.clone(),
            last_commit_hash: v.last_commit_hash.clone(),
            last_timestamp: v.last_timestamp,
            last_tag_version: v.last_tag_version.clone(),
            // `--source none` starts from Value::Null, stdin objects default to {}: both mean "no custom variables"
            custom_json: if v.custom == serde_json::json!({}) || v.custom.is_null() { String::new() } else { v.custom.to_string() },
        }
    }
}

#[derive(Debug, Clone, Hash, PartialEq, Eq, Serialize, Deserialize, Default)]
pub struct MZerv {
    pub schema: MSchema,
    pub vars: MVars,
}
impl MZerv {
    pub fn to_zerv(&self) -> Result<Zerv, String> {
        Zerv::new(self.schema.to_zerv()?, self.vars.to_zerv()).map_err(|e| e.to_string())
    }
    pub fn from_zerv(z: &Zerv) -> MZerv {
        MZerv { schema: MSchema::from_zerv(&z.schema), vars: MVars::from_zerv(&z.vars) }
    }
}
