//! Engine: seeded proptest runner pool, exhaustive enumerations, shrinking, replay files,
//! evidence, known-finding gate.  See DESIGN.md §2.3–2.5, §5.2.
use proptest::strategy::BoxedStrategy;
use proptest::test_runner::{Config, RngAlgorithm, RngSeed, TestCaseError, TestError, TestRunner};
use serde::{Serialize, de::DeserializeOwned};
use serde_json::{Value, json};
use std::collections::{BTreeMap, HashSet};
use std::fmt::Debug;
use std::hash::{Hash, Hasher};
use std::panic::{AssertUnwindSafe, catch_unwind};
use std::sync::Mutex;
use std::sync::atomic::{AtomicBool, Ordering};
use std::time::Instant;

pub const WORKERS: usize = 16;

#[derive(Clone, Copy, PartialEq, Eq, Debug)]
pub enum Tier {
    Quick,
    Thorough,
}
impl Tier {
    pub fn pick<T>(self, q: T, t: T) -> T {
        match self {
            Tier::Quick => q,
            Tier::Thorough => t,
        }
    }
    pub fn name(self) -> &'static str {
        self.pick("quick", "thorough")
    }
}

/// Why a case did not pass.
#[derive(Debug, Clone)]
pub enum Bad {
    /// property violated
    Fail(String),
    /// matches the signature of a listed known finding (id, description of this instance)
    Known(&'static str, String),
}
pub type Res = Result<(), Bad>;

/// infrastructure problems seen inside cases (timeouts, spawn failures): the run becomes
/// "inconclusive" (exit 2); they are never verdicts.
pub static INFRA: Mutex<Vec<String>> = Mutex::new(Vec::new());
pub fn infra(msg: impl Into<String>) {
    let mut g = INFRA.lock().unwrap();
    if g.len() < 20 {
        g.push(msg.into());
    }
}

pub fn fail<T>(msg: impl Into<String>) -> Result<T, Bad> {
    Err(Bad::Fail(msg.into()))
}
#[macro_export]
macro_rules! ensure {
    ($cond:expr, $($fmt:tt)*) => {
        if !($cond) { return Err($crate::runner::Bad::Fail(format!($($fmt)*))); }
    };
}

/// Per-case context handed to the evaluation closure: classification and samples.
#[derive(Default)]
pub struct Cx {
    pub nontrivial: bool,
    pub labels: Vec<&'static str>,
    pub note: Option<String>,
    pub want_note: bool,
    pub strict: bool,
    /// additional evaluations performed inside this case (e.g. a fault grid); the case itself counts 1
    pub extra_evals: u64,
}
impl Cx {
    pub fn nt(&mut self) {
        self.nontrivial = true;
    }
    pub fn nt_if(&mut self, b: bool) {
        if b {
            self.nontrivial = true;
        }
    }
    pub fn label(&mut self, l: &'static str) {
        if !self.labels.contains(&l) {
            self.labels.push(l);
        }
    }
    pub fn label_if(&mut self, b: bool, l: &'static str) {
        if b {
            self.label(l)
        }
    }
    /// record what was observed for the sample list (only evaluated when asked)
    pub fn note(&mut self, f: impl FnOnce() -> String) {
        if self.want_note {
            self.note = Some(f());
        }
    }
}

// ---------------------------------------------------------------------------------------
// panic capture
thread_local! {
    static LAST_PANIC: std::cell::RefCell<Option<String>> = const { std::cell::RefCell::new(None) };
}
pub fn install_panic_hook() {
    std::panic::set_hook(Box::new(|info| {
        let msg = if let Some(s) = info.payload().downcast_ref::<&str>() {
            s.to_string()
        } else if let Some(s) = info.payload().downcast_ref::<String>() {
            s.clone()
        } else {
            "<non-string panic>".to_string()
        };
        let loc = info
            .location()
            .map(|l| format!("{}:{}", l.file(), l.line()))
            .unwrap_or_default();
        LAST_PANIC.with(|p| *p.borrow_mut() = Some(format!("{msg} @ {loc}")));
    }));
}
/// Run `f`; a panic becomes Err(message @ file:line).
pub fn no_panic<T>(f: impl FnOnce() -> T) -> Result<T, String> {
    match catch_unwind(AssertUnwindSafe(f)) {
        Ok(v) => Ok(v),
        Err(_) => Err(LAST_PANIC
            .with(|p| p.borrow_mut().take())
            .unwrap_or_else(|| "<panic>".into())),
    }
}

// ---------------------------------------------------------------------------------------
pub fn splitmix(mut x: u64) -> u64 {
    x = x.wrapping_add(0x9E3779B97F4A7C15);
    let mut z = x;
    z = (z ^ (z >> 30)).wrapping_mul(0xBF58476D1CE4E5B9);
    z = (z ^ (z >> 27)).wrapping_mul(0x94D049BB133111EB);
    z ^ (z >> 31)
}
pub fn derive_seed(seed: u64, prop: &str, sub: &str, worker: u64) -> u64 {
    let mut h = seed;
    for b in prop.bytes().chain([0u8]).chain(sub.bytes()) {
        h = splitmix(h ^ b as u64);
    }
    splitmix(h ^ worker.wrapping_mul(0x100000001B3))
}
fn hash_of<T: Hash>(t: &T) -> u64 {
    // SipHash-1-3 with fixed keys: deterministic across processes
    #[allow(deprecated)]
    let mut h = std::hash::SipHasher::new();
    t.hash(&mut h);
    h.finish()
}

// ---------------------------------------------------------------------------------------
#[derive(Default, Debug, Clone)]
pub struct SubStats {
    pub cases: u64,
    pub name: String,
    pub kind: &'static str,
    pub evaluations: u64,
    pub nontrivial: u64,
    pub distinct_nontrivial: u64,
    pub labels: BTreeMap<String, u64>,
    pub known: BTreeMap<String, (u64, String)>,
    pub samples: Vec<Value>,
    pub violations: Vec<(String, String)>, // (message, replay path)
    pub exhaustive: bool,
    pub universe: String,
    pub floor: f64,
    pub wall_s: f64,
}

struct Acc {
    cases: u64,
    evaluations: u64,
    nontrivial: u64,
    distinct: HashSet<u64>,
    distinct_counter: u64,
    labels: BTreeMap<&'static str, u64>,
    known: BTreeMap<&'static str, (u64, String)>,
    samples: Vec<Value>,
    next_sample_at: u64,
}
impl Acc {
    fn new() -> Self {
        Acc {
            cases: 0,
            evaluations: 0,
            nontrivial: 0,
            distinct: HashSet::new(),
            distinct_counter: 0,
            labels: BTreeMap::new(),
            known: BTreeMap::new(),
            samples: Vec::new(),
            next_sample_at: 0,
        }
    }
}

pub struct RunEnv {
    pub prop: &'static str,
    pub tier: Tier,
    pub seed: u64,
    pub root: std::path::PathBuf,
    pub open_known: Vec<String>,
}

pub trait Sub: Send + Sync {
    fn name(&self) -> &'static str;
    fn run(&self, env: &RunEnv) -> SubStats;
    /// re-evaluate one stored case (strict: known findings are NOT absorbed unless listed open)
    fn replay(&self, env: &RunEnv, case: &Value) -> Result<Res, String>;
    /// Coverage-guided mode (DESIGN.md §7.2): a closure that turns one libFuzzer input into one
    /// generated case — the bytes ARE the random source of the sub-check's own proptest strategy
    /// (`RngAlgorithm::PassThrough`) — and judges it with the sub-check's own oracle.
    /// None: the sub-check has no generator (enumerations).
    fn fuzzer<'a>(&'a self, _env: &'a RunEnv) -> Option<Box<dyn FnMut(&[u8]) -> FuzzOut + 'a>> {
        None
    }
}

/// Verdict of one coverage-guided execution.
#[derive(Debug)]
pub enum FuzzOut {
    /// the bytes did not yield a case (generator rejected them)
    Skip,
    Pass { nontrivial: bool },
    /// absorbed by a listed open known finding
    Known(&'static str),
    /// property violated: message, path of the replay file (minimal case after shrinking)
    Fail { msg: String, replay: String },
}

fn absorb(
    env: &RunEnv,
    r: Result<Res, String>, // Err = panic inside harness/zerv not handled by the property
) -> Res {
    match r {
        Ok(Ok(())) => Ok(()),
        Ok(Err(Bad::Known(id, what))) => {
            if env.open_known.iter().any(|k| k == id) {
                Err(Bad::Known(id, what))
            } else {
                Err(Bad::Fail(format!("[{id}, not listed as an open known finding] {what}")))
            }
        }
        Ok(Err(f)) => Err(f),
        Err(p) => Err(Bad::Fail(format!("panic: {p}"))),
    }
}

fn write_replay(env: &RunEnv, sub: &str, case: &Value, msg: &str) -> String {
    let dir = env.root.join("replays").join(env.prop);
    let _ = std::fs::create_dir_all(&dir);
    let body = json!({"property": env.prop, "sub_check": sub, "case": case, "message": msg,
        "seed": env.seed, "tier": env.tier.name()});
    let text = serde_json::to_string_pretty(&body).unwrap();
    let h = hash_of(&text);
    let path = dir.join(format!("{sub}-{:012x}.json", h & 0xffff_ffff_ffff));
    let _ = std::fs::write(&path, text);
    path.to_string_lossy().into_owned()
}

// ---------------------------------------------------------------------------------------
/// Randomised sub-check driven by a proptest strategy.
pub struct RandomSub<C> {
    pub name: &'static str,
    pub cases: (u64, u64),
    pub strategy: Box<dyn Fn(Tier) -> BoxedStrategy<C> + Send + Sync>,
    pub eval: Box<dyn Fn(&C, &mut Cx) -> Res + Send + Sync>,
    /// minimal fraction of non-trivial cases; below ⇒ run is vacuous ⇒ exit 2
    pub floor: f64,
    pub max_shrink_iters: u32,
    /// worker threads actually used (L2 checks may want fewer); the case split is fixed at WORKERS
    pub universe: &'static str,
}

impl<C> RandomSub<C>
where
    C: Debug + Clone + Hash + Serialize + DeserializeOwned + Send + 'static,
{
    pub fn new(
        name: &'static str,
        cases: (u64, u64),
        strategy: impl Fn(Tier) -> BoxedStrategy<C> + Send + Sync + 'static,
        eval: impl Fn(&C, &mut Cx) -> Res + Send + Sync + 'static,
    ) -> Self {
        RandomSub {
            name,
            cases,
            strategy: Box::new(strategy),
            eval: Box::new(eval),
            floor: 0.0,
            max_shrink_iters: 4000,
            universe: "",
        }
    }
    pub fn floor(mut self, f: f64) -> Self {
        self.floor = f;
        self
    }
    pub fn shrink_iters(mut self, n: u32) -> Self {
        self.max_shrink_iters = n;
        self
    }
    pub fn boxed(self) -> Box<dyn Sub> {
        Box::new(self)
    }
}

impl<C> Sub for RandomSub<C>
where
    C: Debug + Clone + Hash + Serialize + DeserializeOwned + Send + 'static,
{
    fn name(&self) -> &'static str {
        self.name
    }
    fn fuzzer<'a>(&'a self, env: &'a RunEnv) -> Option<Box<dyn FnMut(&[u8]) -> FuzzOut + 'a>> {
        use proptest::strategy::{Strategy, ValueTree};
        use proptest::test_runner::TestRng;
        let strat = (self.strategy)(env.tier);
        let cfg = Config {
            failure_persistence: None,
            max_shrink_iters: self.max_shrink_iters,
            max_global_rejects: 256,
            max_local_rejects: 256,
            verbose: 0,
            ..Config::default()
        };
        // NOTE: only meaningful with /verif/vendor/proptest (patched in by fuzz/Cargo.toml): in
        // upstream proptest an exhausted pass-through source yields zeros for ever, which rand's
        // uniform sampler rejects for most ranges (endless loop), and `fork` halves what is left
        // on every prop_flat_map.  The vendored copy continues with a pseudo-random stream.
        Some(Box::new(move |data: &[u8]| {
            let rng = TestRng::from_seed(RngAlgorithm::PassThrough, data);
            let mut runner = TestRunner::new_with_rng(cfg.clone(), rng);
            let mut tree = match no_panic(|| strat.new_tree(&mut runner)) {
                Ok(Ok(t)) => t,
                _ => return FuzzOut::Skip,
            };
            let case = tree.current();
            let mut cx = Cx::default();
            match absorb(env, no_panic(|| (self.eval)(&case, &mut cx))) {
                Ok(()) => FuzzOut::Pass { nontrivial: cx.nontrivial },
                Err(Bad::Known(id, _)) => FuzzOut::Known(id),
                Err(Bad::Fail(first)) => {
                    // proptest's own shrink loop over the value tree, same oracle
                    let mut best = (case, first);
                    let mut iters = 0u32;
                    let fails = |c: &C| -> Option<String> {
                        let mut cx = Cx::default();
                        match absorb(env, no_panic(|| (self.eval)(c, &mut cx))) {
                            Err(Bad::Fail(m)) => Some(m),
                            _ => None,
                        }
                    };
                    'outer: while iters < self.max_shrink_iters && tree.simplify() {
                        loop {
                            iters += 1;
                            let c = tree.current();
                            if let Some(m) = fails(&c) {
                                best = (c, m);
                                break;
                            }
                            if iters >= self.max_shrink_iters || !tree.complicate() {
                                break 'outer;
                            }
                        }
                    }
                    let v = serde_json::to_value(&best.0).unwrap_or(Value::Null);
                    let replay = write_replay(env, self.name, &v, &best.1);
                    FuzzOut::Fail { msg: best.1, replay }
                }
            }
        }))
    }
    fn run(&self, env: &RunEnv) -> SubStats {
        let t0 = Instant::now();
        let total = env.tier.pick(self.cases.0, self.cases.1);
        let per = total.div_ceil(WORKERS as u64);
        let accs: Vec<Mutex<Acc>> = (0..WORKERS).map(|_| Mutex::new(Acc::new())).collect();
        let fails: Mutex<Vec<(usize, String, Value)>> = Mutex::new(Vec::new());
        let sample_every = (per / 3).max(1);
        std::thread::scope(|s| {
            for w in 0..WORKERS {
                let accs = &accs;
                let fails = &fails;
                s.spawn(move || {
                    let seed = derive_seed(env.seed, env.prop, self.name, w as u64);
                    let cfg = Config {
                        cases: per as u32,
                        failure_persistence: None,
                        rng_seed: RngSeed::Fixed(seed),
                        rng_algorithm: RngAlgorithm::ChaCha,
                        max_shrink_iters: self.max_shrink_iters,
                        max_global_rejects: 1 << 20,
                        max_local_rejects: 1 << 20,
                        verbose: 0,
                        ..Config::default()
                    };
                    let mut runner = TestRunner::new(cfg);
                    let strat = (self.strategy)(env.tier);
                    let failed = AtomicBool::new(false);
                    let res = runner.run(&strat, |case| {
                        let counting = !failed.load(Ordering::Relaxed);
                        let mut cx = Cx::default();
                        if counting {
                            let a = accs[w].lock().unwrap();
                            cx.want_note =
                                a.samples.len() < 3 && a.evaluations >= a.next_sample_at;
                        }
                        let r = absorb(env, no_panic(|| (self.eval)(&case, &mut cx)));
                        if counting {
                            let mut a = accs[w].lock().unwrap();
                            a.cases += 1;
                            a.evaluations += 1 + cx.extra_evals;
                            for l in &cx.labels {
                                *a.labels.entry(l).or_default() += 1;
                            }
                            if cx.nontrivial && !matches!(r, Err(Bad::Fail(_))) {
                                a.nontrivial += 1;
                                a.distinct.insert(hash_of(&case));
                            }
                            if cx.want_note && cx.nontrivial && r.is_ok() {
                                a.next_sample_at = a.evaluations + sample_every;
                                a.samples.push(json!({
                                    "case": serde_json::to_value(&case).unwrap_or(Value::Null),
                                    "observed": cx.note.clone().unwrap_or_default(),
                                    "nontrivial": cx.nontrivial,
                                }));
                            }
                            if let Err(Bad::Known(id, what)) = &r {
                                let e = a.known.entry(id).or_insert((0, what.clone()));
                                e.0 += 1;
                            }
                        }
                        match r {
                            Ok(()) | Err(Bad::Known(..)) => Ok(()),
                            Err(Bad::Fail(m)) => {
                                failed.store(true, Ordering::Relaxed);
                                Err(TestCaseError::fail(m))
                            }
                        }
                    });
                    match res {
                        Ok(()) => {}
                        Err(TestError::Fail(reason, minimal)) => {
                            let v = serde_json::to_value(&minimal).unwrap_or(Value::Null);
                            fails.lock().unwrap().push((w, reason.message().to_string(), v));
                        }
                        Err(TestError::Abort(reason)) => {
                            fails.lock().unwrap().push((
                                w,
                                format!("ABORT (generator rejected too much): {reason}"),
                                Value::Null,
                            ));
                        }
                    }
                });
            }
        });
        let mut st = SubStats {
            name: self.name.to_string(),
            kind: "random(proptest)",
            floor: self.floor,
            universe: self.universe.to_string(),
            ..Default::default()
        };
        let mut distinct: HashSet<u64> = HashSet::new();
        for a in accs {
            let a = a.into_inner().unwrap();
            st.cases += a.cases;
            st.evaluations += a.evaluations;
            st.nontrivial += a.nontrivial;
            distinct.extend(a.distinct);
            for (k, v) in a.labels {
                *st.labels.entry(k.to_string()).or_default() += v;
            }
            for (k, (n, what)) in a.known {
                let e = st.known.entry(k.to_string()).or_insert((0, what));
                e.0 += n;
            }
            for s in a.samples {
                if st.samples.len() < 6 {
                    st.samples.push(s);
                }
            }
        }
        st.distinct_nontrivial = distinct.len() as u64;
        let mut fails = fails.into_inner().unwrap();
        fails.sort_by_key(|f| f.0);
        if let Some((_, msg, case)) = fails.into_iter().next() {
            let path = write_replay(env, self.name, &case, &msg);
            st.violations.push((msg, path));
        }
        st.wall_s = t0.elapsed().as_secs_f64();
        st
    }
    fn replay(&self, env: &RunEnv, case: &Value) -> Result<Res, String> {
        let c: C = serde_json::from_value(case.clone()).map_err(|e| e.to_string())?;
        let mut cx = Cx { strict: true, ..Default::default() };
        Ok(absorb(env, no_panic(|| (self.eval)(&c, &mut cx))))
    }
}

// ---------------------------------------------------------------------------------------
/// Exhaustive enumeration of a finite universe, sharded over the workers.
/// `enumerate(tier, shard, nshards, visit)` must call `visit` for every element whose
/// index ≡ shard (mod nshards) (or any other fixed partition); elements never repeat.
pub struct EnumSub<C> {
    pub name: &'static str,
    pub universe: &'static str,
    #[allow(clippy::type_complexity)]
    pub enumerate: Box<dyn Fn(Tier, usize, usize, &mut dyn FnMut(&C) -> bool) + Send + Sync>,
    pub eval: Box<dyn Fn(&C, &mut Cx) -> Res + Send + Sync>,
    pub floor: f64,
}
impl<C> EnumSub<C>
where
    C: Debug + Clone + Serialize + DeserializeOwned + Send + 'static,
{
    pub fn new(
        name: &'static str,
        universe: &'static str,
        enumerate: impl Fn(Tier, usize, usize, &mut dyn FnMut(&C) -> bool) + Send + Sync + 'static,
        eval: impl Fn(&C, &mut Cx) -> Res + Send + Sync + 'static,
    ) -> Self {
        EnumSub { name, universe, enumerate: Box::new(enumerate), eval: Box::new(eval), floor: 0.0 }
    }
    pub fn boxed(self) -> Box<dyn Sub> {
        Box::new(self)
    }
}
impl<C> Sub for EnumSub<C>
where
    C: Debug + Clone + Serialize + DeserializeOwned + Send + 'static,
{
    fn name(&self) -> &'static str {
        self.name
    }
    fn run(&self, env: &RunEnv) -> SubStats {
        let t0 = Instant::now();
        let accs: Vec<Mutex<Acc>> = (0..WORKERS).map(|_| Mutex::new(Acc::new())).collect();
        let fails: Mutex<Vec<(usize, String, Value, usize)>> = Mutex::new(Vec::new());
        std::thread::scope(|s| {
            for w in 0..WORKERS {
                let accs = &accs;
                let fails = &fails;
                s.spawn(move || {
                    let mut a = accs[w].lock().unwrap();
                    let mut first_fail: Option<(String, Value, usize)> = None;
                    (self.enumerate)(env.tier, w, WORKERS, &mut |case: &C| {
                        let mut cx = Cx::default();
                        cx.want_note = a.samples.len() < 2 && a.evaluations >= a.next_sample_at;
                        let r = absorb(env, no_panic(|| (self.eval)(case, &mut cx)));
                        a.cases += 1;
                        a.evaluations += 1;
                        for l in &cx.labels {
                            *a.labels.entry(l).or_default() += 1;
                        }
                        if cx.nontrivial && !matches!(r, Err(Bad::Fail(_))) {
                            a.nontrivial += 1;
                            a.distinct_counter += 1;
                        }
                        if cx.want_note && cx.nontrivial && r.is_ok() {
                            a.next_sample_at = a.evaluations * 7 + 1000;
                            a.samples.push(json!({
                                "case": serde_json::to_value(case).unwrap_or(Value::Null),
                                "observed": cx.note.clone().unwrap_or_default(),
                                "nontrivial": cx.nontrivial,
                            }));
                        }
                        match r {
                            Ok(()) => true,
                            Err(Bad::Known(id, what)) => {
                                let e = a.known.entry(id).or_insert((0, what));
                                e.0 += 1;
                                true
                            }
                            Err(Bad::Fail(m)) => {
                                // enumeration order is shortest-first in every enumerator, so
                                // the first failure of a shard is already (near-)minimal
                                let v = serde_json::to_value(case).unwrap_or(Value::Null);
                                let sz = v.to_string().len();
                                first_fail = Some((m, v, sz));
                                false
                            }
                        }
                    });
                    if let Some((m, v, sz)) = first_fail {
                        fails.lock().unwrap().push((w, m, v, sz));
                    }
                });
            }
        });
        let mut st = SubStats {
            name: self.name.to_string(),
            kind: "exhaustive-enumeration",
            exhaustive: true,
            universe: self.universe.to_string(),
            floor: self.floor,
            ..Default::default()
        };
        for a in accs {
            let a = a.into_inner().unwrap();
            st.cases += a.cases;
            st.evaluations += a.evaluations;
            st.nontrivial += a.nontrivial;
            st.distinct_nontrivial += a.distinct_counter;
            for (k, v) in a.labels {
                *st.labels.entry(k.to_string()).or_default() += v;
            }
            for (k, (n, what)) in a.known {
                let e = st.known.entry(k.to_string()).or_insert((0, what));
                e.0 += n;
            }
            for s in a.samples {
                if st.samples.len() < 6 {
                    st.samples.push(s);
                }
            }
        }
        let mut fails = fails.into_inner().unwrap();
        // smallest serialised case first (the "shrunk" reproduction of an enumeration)
        fails.sort_by_key(|f| (f.3, f.0));
        if let Some((_, msg, case, _)) = fails.into_iter().next() {
            st.exhaustive = false;
            let path = write_replay(env, self.name, &case, &msg);
            st.violations.push((msg, path));
        }
        st.wall_s = t0.elapsed().as_secs_f64();
        st
    }
    fn replay(&self, env: &RunEnv, case: &Value) -> Result<Res, String> {
        let c: C = serde_json::from_value(case.clone()).map_err(|e| e.to_string())?;
        let mut cx = Cx { strict: true, ..Default::default() };
        Ok(absorb(env, no_panic(|| (self.eval)(&c, &mut cx))))
    }
}

// ---------------------------------------------------------------------------------------
pub struct Property {
    pub id: &'static str,
    pub rule: &'static str,
    pub assumptions: Vec<&'static str>,
    pub subs: Vec<Box<dyn Sub>>,
    /// canonical reproductions of the known findings of this property:
    /// (finding id, sub-check name, case JSON)
    pub known_repro: Vec<(&'static str, &'static str, Value)>,
}

#[derive(serde::Deserialize, Debug, Clone)]
pub struct KnownFinding {
    pub id: String,
    pub property: String,
    pub status: String,
    pub what: String,
}
#[derive(serde::Deserialize, Debug, Default)]
pub struct KnownFile {
    #[serde(default)]
    pub findings: Vec<KnownFinding>,
    #[serde(default)]
    pub fixed: Vec<String>,
}
pub fn load_known(root: &std::path::Path) -> KnownFile {
    match std::fs::read_to_string(root.join("known_findings.json")) {
        Ok(t) => serde_json::from_str(&t).expect("known_findings.json must parse"),
        Err(_) => KnownFile::default(),
    }
}

pub struct Outcome {
    pub exit: i32,
}

pub fn run_property(p: &Property, tier: Tier, seed: u64, root: &std::path::Path, only: Option<&str>) -> Outcome {
    let t0 = Instant::now();
    let kf = load_known(root);
    let open: Vec<KnownFinding> = kf
        .findings
        .iter()
        .filter(|f| f.property == p.id && f.status == "open")
        .cloned()
        .collect();
    let env = RunEnv {
        prop: p.id,
        tier,
        seed,
        root: root.to_path_buf(),
        open_known: open.iter().map(|f| f.id.clone()).collect(),
    };
    let mut violations: Vec<(String, String, String)> = Vec::new(); // sub, msg, path
    let mut infra: Vec<String> = Vec::new();

    // 1. regress replay (committed minimal reproductions) — plain regression checks
    let mut regress_n = 0u64;
    let rdir = root.join("regress").join(p.id);
    if let Ok(rd) = std::fs::read_dir(&rdir) {
        let mut files: Vec<_> = rd.filter_map(|e| e.ok()).map(|e| e.path()).collect();
        files.sort();
        for f in files {
            if f.extension().and_then(|e| e.to_str()) != Some("json") {
                continue;
            }
            let Ok(text) = std::fs::read_to_string(&f) else { continue };
            let Ok(v) = serde_json::from_str::<Value>(&text) else {
                infra.push(format!("regress file does not parse: {}", f.display()));
                continue;
            };
            let subn = v["sub_check"].as_str().unwrap_or("");
            let Some(sub) = p.subs.iter().find(|s| s.name() == subn) else {
                infra.push(format!("regress file names unknown sub-check {subn}: {}", f.display()));
                continue;
            };
            regress_n += 1;
            match sub.replay(&env, &v["case"]) {
                Ok(Ok(())) | Ok(Err(Bad::Known(..))) => {}
                Ok(Err(Bad::Fail(m))) => {
                    violations.push((subn.to_string(), m, f.to_string_lossy().into_owned()))
                }
                Err(e) => infra.push(format!("regress case does not decode ({e}): {}", f.display())),
            }
        }
    }

    // 2. canonical reproductions of the listed known findings
    let mut known_seen: BTreeMap<String, (u64, String)> = BTreeMap::new();
    for (id, subn, case) in &p.known_repro {
        let listed_open = env.open_known.iter().any(|k| k == id);
        let Some(sub) = p.subs.iter().find(|s| s.name() == *subn) else {
            infra.push(format!("known repro names unknown sub-check {subn}"));
            continue;
        };
        match sub.replay(&env, case) {
            Ok(Err(Bad::Known(k, what))) if k == *id => {
                known_seen.entry(id.to_string()).or_insert((0, what)).0 += 1;
            }
            Ok(Ok(())) => {
                if listed_open {
                    println!(
                        "NOTE: known finding {id} is listed open but its canonical input no longer fails (known_findings.json is stale)"
                    );
                }
            }
            Ok(Err(Bad::Known(k, what))) => {
                infra.push(format!("canonical repro of {id} matched {k} instead: {what}"))
            }
            Ok(Err(Bad::Fail(m))) => {
                // not listed open (e.g. fixed entry regressed), or signature drift
                let path = write_replay(&env, subn, case, &m);
                violations.push((subn.to_string(), m, path));
            }
            Err(e) => infra.push(format!("known repro for {id} does not decode: {e}")),
        }
    }

    // 3. the sub-checks
    let mut stats: Vec<SubStats> = Vec::new();
    for s in &p.subs {
        if let Some(o) = only
            && s.name() != o
        {
            continue;
        }
        let st = s.run(&env);
        eprintln!(
            "[{}] {:<22} {:>10} evals {:>9} nontrivial ({:>9} distinct) {:>7.1}s {}{}",
            p.id,
            st.name,
            st.evaluations,
            st.nontrivial,
            st.distinct_nontrivial,
            st.wall_s,
            if st.violations.is_empty() { "ok" } else { "VIOLATION" },
            if st.known.is_empty() {
                String::new()
            } else {
                format!(" known={:?}", st.known.iter().map(|(k, v)| (k.clone(), v.0)).collect::<Vec<_>>())
            }
        );
        for (m, path) in &st.violations {
            violations.push((st.name.clone(), m.clone(), path.clone()));
        }
        for (k, (n, what)) in &st.known {
            known_seen.entry(k.clone()).or_insert((0, what.clone())).0 += n;
        }
        if st.violations.is_empty() && st.evaluations > 0 {
            let frac = st.nontrivial as f64 / st.cases.max(1) as f64;
            if frac < st.floor {
                infra.push(format!(
                    "sub-check {} is vacuous: non-trivial fraction {:.3} < floor {:.3}",
                    st.name, frac, st.floor
                ));
            }
        }
        stats.push(st);
    }

    infra.extend(INFRA.lock().unwrap().drain(..));
    // 4. report
    for f in &open {
        if let Some((n, what)) = known_seen.get(&f.id) {
            println!("KNOWN-FINDING: property={} {}: {} [{} case(s) this run, e.g. {}]", p.id, f.id, f.what, n, what);
        }
    }
    for (sub, msg, path) in &violations {
        println!("VIOLATION property={} replay={}", p.id, path);
        println!("  sub-check={sub}: {msg}");
    }
    for m in &infra {
        println!("INFRA: {m}");
    }

    let evaluations: u64 = stats.iter().map(|s| s.evaluations).sum::<u64>() + regress_n;
    let distinct: u64 = stats.iter().map(|s| s.distinct_nontrivial).sum();
    let mut samples: Vec<Value> = Vec::new();
    for st in &stats {
        for s in st.samples.iter().take(3) {
            let mut s = s.clone();
            s["sub_check"] = json!(st.name);
            samples.push(s);
        }
    }
    if samples.is_empty() {
        samples.push(json!({"note": "no sample collected"}));
    }
    // true when at least one finite universe was enumerated completely (which ones:
    // exhaustive_sub_checks); the random sub-checks are of course not exhaustive
    let all_exh = stats.iter().any(|s| s.exhaustive);
    let sub_json: Vec<Value> = stats
        .iter()
        .map(|s| {
            json!({
                "name": s.name, "kind": s.kind, "cases": s.cases, "evaluations": s.evaluations,
                "nontrivial": s.nontrivial, "distinct_nontrivial": s.distinct_nontrivial,
                "labels": s.labels, "exhaustive": s.exhaustive, "universe": s.universe,
                "excluded_known": s.known.iter().map(|(k,v)| (k.clone(), json!(v.0))).collect::<serde_json::Map<_,_>>(),
                "violations": s.violations.len(), "wall_s": (s.wall_s*100.0).round()/100.0,
            })
        })
        .collect();
    let ev = json!({
        "property_id": p.id,
        "tier": tier.name(),
        "seed": seed,
        "level": "exploration",
        "coverage": {
            "evaluations": evaluations,
            "distinct_nontrivial": distinct,
            "rule": p.rule,
            "samples": samples,
            "exhaustive": all_exh,
            "exhaustive_sub_checks": stats.iter().filter(|s| s.exhaustive).map(|s| format!("{}: {}", s.name, s.universe)).collect::<Vec<_>>(),
            "sub_checks": sub_json,
            "regress_replayed": regress_n,
            "excluded_known": known_seen.iter().map(|(k,v)| (k.clone(), json!(v.0))).collect::<serde_json::Map<_,_>>(),
        },
        "assumptions": p.assumptions,
        "wall_s": (t0.elapsed().as_secs_f64()*100.0).round()/100.0,
        "violations": violations.len(),
    });
    if only.is_none() {
        let _ = std::fs::create_dir_all(root.join("evidence"));
        let path = root.join("evidence").join(format!("{}.json", p.id));
        std::fs::write(&path, serde_json::to_string_pretty(&ev).unwrap()).expect("write evidence");
    }
    let exit = if !violations.is_empty() {
        1
    } else if !infra.is_empty() {
        2
    } else {
        0
    };
    println!(
        "{} {}: {} evaluations, {} distinct non-trivial, {} violation(s), {:.1}s",
        p.id,
        tier.name(),
        evaluations,
        distinct,
        violations.len(),
        t0.elapsed().as_secs_f64()
    );
    Outcome { exit }
}

pub fn replay_file(p: &Property, root: &std::path::Path, path: &str) -> Outcome {
    let kf = load_known(root);
    let env = RunEnv {
        prop: p.id,
        tier: Tier::Quick,
        seed: 0,
        root: root.to_path_buf(),
        open_known: kf
            .findings
            .iter()
            .filter(|f| f.property == p.id && f.status == "open")
            .map(|f| f.id.clone())
            .collect(),
    };
    let text = match std::fs::read_to_string(path) {
        Ok(t) => t,
        Err(e) => {
            println!("INFRA: cannot read {path}: {e}");
            return Outcome { exit: 2 };
        }
    };
    let v: Value = match serde_json::from_str(&text) {
        Ok(v) => v,
        Err(e) => {
            println!("INFRA: {path} is not JSON: {e}");
            return Outcome { exit: 2 };
        }
    };
    let subn = v["sub_check"].as_str().unwrap_or("");
    let Some(sub) = p.subs.iter().find(|s| s.name() == subn) else {
        println!("INFRA: unknown sub-check {subn}");
        return Outcome { exit: 2 };
    };
    match sub.replay(&env, &v["case"]) {
        Ok(Ok(())) => {
            println!("replay {path}: property holds on this case");
            Outcome { exit: 0 }
        }
        Ok(Err(Bad::Known(id, what))) => {
            println!("KNOWN-FINDING: property={} {id}: {what}", p.id);
            Outcome { exit: 0 }
        }
        Ok(Err(Bad::Fail(m))) => {
            println!("VIOLATION property={} replay={}", p.id, path);
            println!("  sub-check={subn}: {m}");
            Outcome { exit: 1 }
        }
        Err(e) => {
            println!("INFRA: case does not decode: {e}");
            Outcome { exit: 2 }
        }
    }
}
