//! zv — property-based / fuzzing verification engine for wislertt/zerv (see /verif/DESIGN.md).
//! The library half exists so that the libFuzzer crate (`fuzz/`) can drive the very same
//! generators and oracles as the proptest runner (`fuzz_targets/gen_driven.rs`).
#[macro_use]
#[allow(dead_code)]
pub mod runner;
#[allow(dead_code)]
pub mod gens;
#[allow(dead_code)]
pub mod oracle;
#[allow(dead_code)]
pub mod proc;
#[allow(dead_code)]
pub mod cli;
#[allow(dead_code)]
pub mod model;
#[allow(dead_code)]
pub mod gitlab;
pub mod props;
