//! Git history builder + in-memory DAG model (C02, C03 chains, C13 faults, C14).
//! The harness builds the repository itself, so ancestors, distances, tags, branch and
//! dirt are known by construction; commit hashes are read back with `git rev-parse`.
use serde::{Deserialize, Serialize};
use std::collections::BTreeSet;
use std::path::{Path, PathBuf};
use std::process::Command;
use std::sync::atomic::{AtomicU64, Ordering};

#[derive(Debug, Clone, Hash, PartialEq, Eq, Serialize, Deserialize)]
pub enum Op {
    Commit { time_skew: i64 },
    Branch { name: usize },
    Checkout { branch: usize },
    Detach { commit: usize },
    /// merge `other` (and `third`) into HEAD with --no-ff
    Merge { other: usize, third: Option<usize>, time_skew: i64 },
    Tag { name: usize, annotated: bool, at: Option<usize> },
    /// a commit + tag on a side branch that is never merged (unreachable from HEAD)
    TagUnreachable { name: usize },
    DeleteTag { which: usize },
    DirtyModify,
    DirtyStage,
    DirtyUntracked,
    IgnoredOnly,
    Clean,
    /// rewrite a tracked file with identical bytes and a different mtime (stale index stat data): not a change
    TouchUnchanged,
    /// an empty untracked directory: git does not track directories, so not a change
    EmptyDir,
    /// a branch (not checked out) named exactly like an existing tag, at that tag's commit
    BranchLikeTag { which: usize },
    /// a lightweight tag `v0.<n>.0` at HEAD (repositories with hundreds of releases)
    TagNumbered { n: u32 },
    /// a file in the work tree named exactly like an existing tag (or `HEAD`): a revision
    /// argument of that name is ambiguous to git unless it is followed by `--` (F25).
    /// untracked: the tree becomes dirty; tracked: a new commit that adds the file
    FileLikeRef { which: usize, tracked: bool },
    /// `git pack-refs --all --prune` / `git gc`: refs move into packed-refs, objects into a pack; no fact changes
    Repack { gc: bool },
    /// a tag with a high version name on an object that is not a commit (a tree or a blob, as in
    /// linux.git): it is on no commit, so it never counts
    TagNonCommit { blob: bool },
    /// refs outside refs/heads and refs/tags that point at commits: a remote-tracking branch, a
    /// remote's tag namespace, a note-like ref, refs/stash-like.  None of them is a tag or a branch.
    ForeignRef { kind: usize, at: usize },
    /// a second root: an orphan line with its own (optionally tagged) commit, merged with
    /// --allow-unrelated-histories
    OrphanMerge { tag: Option<usize>, time_skew: i64 },
    /// flip the executable bit of a tracked file, content untouched: a modification (` M` in git status)
    DirtyMode,
}

pub const BRANCHES: [&str; 10] = ["develop", "feature/x", "release/1", "fé/ü", "007", "hotfix/12/a", "release-2", "Feature/API-v2", "users/a+b@c", "1.2.3"];
/// tag names: (name, valid semver, valid pep440)
pub const TAGS: [&str; 51] = [
    "1.0.0", "1.2.3", "v1.2.3", "2.0.0", "v2.0.0", "0.1.0", "10.20.30", "1.0.0-rc.1", "1.0.0-alpha.1", "v1.0.0-beta.2", "2.0.0-rc.1.post.3", "1.2.3+build.5",
    "3.0.0-alpha", "1.0", "1.0a1", "2!1.0", "1.0.post1", "1.0.0.dev3", "v3.1", "1.2.3.4", "3.0.0rc1", "01.02.03",
    "latest", "release-candidate", "foo", "v", "nightly-2024", "1.x", "v1.2.3.post1", "V1.2.3", "1.2.3-0123", "4.0.0-RC.1", "0.0.0", "1.10.0",
    // valid SemVer only (no PEP 440 reading), so that auto-detection has both kinds of exclusive names to weigh
    "1.0.1-hotfix.final", "2.1.0-x.7.z.92", "1.0.0-0.3.7", "v5.0.0-snapshot", "0.9.0-x-y-z.--",
    // shapes other tools write: git describe, Maven, dated builds
    "1.2.3-5-gabc1234", "2.0.0-SNAPSHOT", "1.0.0+20240131", "v1.4.0-rc.2+build.20240131T120000Z",
    // separator twins: 1.0-1 is 1.0.post1 (PEP 440 only), 1.0.1 is a release
    "1.0-1", "1.0.1",
    // markers that embed a version tag's name
    "deploy-v1.2.3", "ci-passed-1.0.0", "v1.2.3-deployed",
    // equal precedence, equal length
    "1.2.3+build.6", "1.0A1", "1.0.0-RC.1",
];

#[derive(Debug, Clone)]
pub struct CommitM {
    pub parents: Vec<usize>,
    pub time: u64,
    pub hash: String,
}
#[derive(Debug, Clone, PartialEq, Eq)]
pub enum HeadM {
    Branch(String),
    Detached(usize),
}
#[derive(Debug, Clone)]
pub struct TagM {
    pub name: String,
    pub commit: usize,
    pub annotated: bool,
}
#[derive(Debug, Clone)]
pub struct Model {
    pub commits: Vec<CommitM>,
    pub branches: Vec<(String, usize)>,
    pub head: HeadM,
    pub tags: Vec<TagM>,
    pub modified: bool,
    pub staged: bool,
    pub untracked: bool,
    pub next_time: u64,
    pub merges: usize,
}
impl Model {
    pub fn head_commit(&self) -> usize {
        match &self.head {
            HeadM::Branch(b) => self.branches.iter().find(|x| &x.0 == b).map(|x| x.1).unwrap_or(0),
            HeadM::Detached(c) => *c,
        }
    }
    pub fn ancestors(&self, c: usize) -> BTreeSet<usize> {
        let mut seen = BTreeSet::new();
        let mut stack = vec![c];
        while let Some(x) = stack.pop() {
            if seen.insert(x) {
                stack.extend(self.commits[x].parents.iter().copied());
            }
        }
        seen
    }
    pub fn dirty(&self) -> bool {
        self.modified || self.staged || self.untracked
    }
}

static COUNTER: AtomicU64 = AtomicU64::new(0);
pub struct Repo {
    pub dir: PathBuf,
    pub model: Model,
    pub log: Vec<String>,
}
impl Drop for Repo {
    fn drop(&mut self) {
        let _ = std::fs::remove_dir_all(&self.dir);
    }
}

/// A user-level git configuration whose `core.excludesFile` ignores `*.globalign` (editor
/// backups, .DS_Store in real life): path of the configuration file, created once.
pub fn global_excludes_config() -> std::path::PathBuf {
    let root = std::env::var("VERIF_ROOT").unwrap_or_else(|_| "/verif".into());
    let cfgdir = Path::new(&root).join(".cache").join("gitcfg");
    let cfg = cfgdir.join("gitconfig");
    static CFG_ONCE: std::sync::Once = std::sync::Once::new();
    CFG_ONCE.call_once(|| {
        let _ = std::fs::create_dir_all(&cfgdir);
        let _ = std::fs::write(cfgdir.join("ignore"), "*.globalign\n");
        // plus display settings a user may have: none of them changes a fact of the repository
        let _ = std::fs::write(
            &cfg,
            format!("[core]\n\texcludesFile = {}\n\tpager = cat\n[column]\n\tui = always\n[color]\n\tui = always\n[tag]\n\tsort = -version:refname\n[log]\n\tdecorate = full\n\tshowSignature = false\n[status]\n\tshort = true\n\tbranch = true\n", cfgdir.join("ignore").display()),
        );
    });
    cfg
}

pub fn git_env(cmd: &mut Command) {
    cmd.env_clear()
        .env("PATH", crate::proc::BASE_PATH)
        .env("HOME", "/nonexistent")
        .env("LANG", "C")
        .env("TZ", "UTC")
        .env("GIT_CONFIG_GLOBAL", "/dev/null")
        .env("GIT_CONFIG_SYSTEM", "/dev/null")
        .env("GIT_CONFIG_NOSYSTEM", "1")
        .env("GIT_TERMINAL_PROMPT", "0")
        .env("GIT_AUTHOR_NAME", "t")
        .env("GIT_AUTHOR_EMAIL", "t@example.com")
        .env("GIT_COMMITTER_NAME", "t")
        .env("GIT_COMMITTER_EMAIL", "t@example.com");
}

impl Repo {
    pub fn git(&mut self, args: &[&str], date: Option<u64>) -> Result<String, String> {
        let mut cmd = Command::new("git");
        git_env(&mut cmd);
        cmd.current_dir(&self.dir).args(args);
        if let Some(d) = date {
            // the author date is never the commit time zerv must report (amended, rebased, cherry-picked
            // and applied commits all have an older author date): 463 days and 7 h 6 min 40 s earlier,
            // written in another zone
            cmd.env("GIT_AUTHOR_DATE", format!("{} +0530", d.saturating_sub(40_000_000).max(1))).env("GIT_COMMITTER_DATE", format!("{d} +0000"));
        }
        let out = cmd.output().map_err(|e| format!("git spawn: {e}"))?;
        self.log.push(format!("git {}", args.join(" ")));
        if !out.status.success() {
            return Err(format!("git {:?} failed: {}", args, String::from_utf8_lossy(&out.stderr)));
        }
        Ok(String::from_utf8_lossy(&out.stdout).trim().to_string())
    }

    pub fn new() -> Result<Repo, String> {
        let n = COUNTER.fetch_add(1, Ordering::Relaxed);
        let root = std::env::var("VERIF_ROOT").unwrap_or_else(|_| "/verif".into());
        let dir = Path::new(&root).join(".cache").join("tmp").join(format!("repo-{}-{}", std::process::id(), n));
        let _ = std::fs::remove_dir_all(&dir);
        std::fs::create_dir_all(&dir).map_err(|e| e.to_string())?;
        let mut r = Repo {
            dir,
            model: Model { commits: vec![], branches: vec![("main".into(), 0)], head: HeadM::Branch("main".into()), tags: vec![], modified: false, staged: false, untracked: false, next_time: 1_600_000_000, merges: 0 },
            log: vec![],
        };
        r.git(&["init", "-q", "-b", "main", "."], None)?;
        r.git(&["config", "commit.gpgsign", "false"], None)?;
        r.git(&["config", "tag.gpgsign", "false"], None)?;
        r.git(&["config", "core.quotepath", "false"], None)?;
        std::fs::write(r.dir.join(".gitignore"), "*.ign\nignored/\n").map_err(|e| e.to_string())?;
        std::fs::write(r.dir.join("f0.txt"), "0\n").map_err(|e| e.to_string())?;
        r.git(&["add", ".gitignore", "f0.txt"], None)?;
        let t = r.model.next_time;
        r.git(&["commit", "-q", "-m", "c0"], Some(t))?;
        let h = r.git(&["rev-parse", "HEAD"], None)?;
        r.model.commits.push(CommitM { parents: vec![], time: t, hash: h });
        r.model.next_time += 1000;
        Ok(r)
    }

    fn clean_tree(&mut self) -> Result<(), String> {
        if self.model.dirty() {
            self.git(&["reset", "-q", "--hard"], None)?;
            self.git(&["clean", "-fdq"], None)?;
            self.model.modified = false;
            self.model.staged = false;
            self.model.untracked = false;
        }
        Ok(())
    }
    fn time(&mut self, skew: i64) -> u64 {
        // committer dates are deliberately NOT monotone with topology
        let t = (self.model.next_time as i64 + skew.clamp(-400_000, 400_000)).max(1) as u64;
        self.model.next_time += 1000;
        t
    }
    fn advance_head(&mut self, c: usize) {
        match self.model.head.clone() {
            HeadM::Branch(b) => {
                if let Some(e) = self.model.branches.iter_mut().find(|x| x.0 == b) {
                    e.1 = c;
                }
            }
            HeadM::Detached(_) => self.model.head = HeadM::Detached(c),
        }
    }
    fn new_commit(&mut self, skew: i64) -> Result<usize, String> {
        self.clean_tree()?;
        let n = self.model.commits.len();
        std::fs::write(self.dir.join(format!("f{n}.txt")), format!("{n}\n")).map_err(|e| e.to_string())?;
        self.git(&["add", &format!("f{n}.txt")], None)?;
        let t = self.time(skew);
        self.git(&["commit", "-q", "-m", &format!("c{n}")], Some(t))?;
        let h = self.git(&["rev-parse", "HEAD"], None)?;
        let parent = self.model.head_commit();
        self.model.commits.push(CommitM { parents: vec![parent], time: t, hash: h });
        self.advance_head(n);
        Ok(n)
    }

    /// Apply one op; ops whose precondition fails are remapped to a valid neighbour.
    pub fn apply(&mut self, op: &Op) -> Result<(), String> {
        match op {
            Op::Commit { time_skew } => {
                self.new_commit(*time_skew)?;
            }
            Op::Branch { name } => {
                let nm = BRANCHES[name % BRANCHES.len()].to_string();
                if self.model.branches.iter().any(|b| b.0 == nm) {
                    return self.apply(&Op::Checkout { branch: self.model.branches.iter().position(|b| b.0 == nm).unwrap() });
                }
                self.clean_tree()?;
                self.git(&["checkout", "-q", "-b", &nm], None)?;
                let c = self.model.head_commit();
                self.model.branches.push((nm.clone(), c));
                self.model.head = HeadM::Branch(nm);
            }
            Op::Checkout { branch } => {
                self.clean_tree()?;
                let (nm, _) = self.model.branches[branch % self.model.branches.len()].clone();
                self.git(&["switch", "-q", "--no-guess", &nm], None)?;
                self.model.head = HeadM::Branch(nm);
            }
            Op::Detach { commit } => {
                self.clean_tree()?;
                let c = commit % self.model.commits.len();
                let h = self.model.commits[c].hash.clone();
                self.git(&["checkout", "-q", "--detach", &h], None)?;
                self.model.head = HeadM::Detached(c);
            }
            Op::Merge { other, third, time_skew } => {
                self.clean_tree()?;
                let head = self.model.head_commit();
                let anc = self.model.ancestors(head);
                let pick = |k: usize, m: &Model| m.branches[k % m.branches.len()].clone();
                let (_, oc) = pick(*other, &self.model);
                let mut heads: Vec<usize> = vec![];
                if !anc.contains(&oc) {
                    heads.push(oc);
                }
                if let Some(t) = third {
                    let (_, tc) = pick(*t, &self.model);
                    // octopus only with mutually unrelated tips
                    if !anc.contains(&tc) && !heads.contains(&tc) && heads.iter().all(|h| !self.model.ancestors(*h).contains(&tc) && !self.model.ancestors(tc).contains(h)) {
                        heads.push(tc);
                    }
                }
                if heads.is_empty() {
                    // nothing to merge: grow a side line from an earlier commit and merge that,
                    // so a Merge op always yields a merge commit (sequences stay dense)
                    let back = self.model.head.clone();
                    let ancv: Vec<usize> = anc.iter().copied().collect();
                    let base = ancv[other % ancv.len()];
                    let bh = self.model.commits[base].hash.clone();
                    let nm = format!("side{}", self.model.commits.len());
                    self.git(&["checkout", "-q", "-b", &nm, &bh], None)?;
                    self.model.branches.push((nm.clone(), base));
                    self.model.head = HeadM::Branch(nm);
                    let c = self.new_commit(-(*time_skew))?;
                    match &back {
                        HeadM::Branch(b) => {
                            self.git(&["switch", "-q", "--no-guess", b], None)?;
                        }
                        HeadM::Detached(d) => {
                            let h = self.model.commits[*d].hash.clone();
                            self.git(&["checkout", "-q", "--detach", &h], None)?;
                        }
                    }
                    self.model.head = back;
                    heads.push(c);
                }
                let t = self.time(*time_skew);
                let hashes: Vec<String> = heads.iter().map(|h| self.model.commits[*h].hash.clone()).collect();
                let mut args: Vec<&str> = vec!["merge", "-q", "--no-ff", "--no-edit", "--allow-unrelated-histories", "-m", "merge"];
                args.extend(hashes.iter().map(|s| s.as_str()));
                self.git(&args, Some(t))?;
                let h = self.git(&["rev-parse", "HEAD"], None)?;
                let n = self.model.commits.len();
                let mut parents = vec![head];
                parents.extend(heads);
                self.model.commits.push(CommitM { parents, time: t, hash: h });
                self.model.merges += 1;
                self.advance_head(n);
            }
            Op::Tag { name, annotated, at } => {
                let nm = TAGS[name % TAGS.len()].to_string();
                if self.model.tags.iter().any(|t| t.name == nm) {
                    return Ok(());
                }
                let c = match at {
                    Some(a) => a % self.model.commits.len(),
                    None => self.model.head_commit(),
                };
                let h = self.model.commits[c].hash.clone();
                if *annotated {
                    // tagger date differs from the commit date on purpose
                    let t = self.model.commits[c].time + 777_777;
                    // messages as release tooling writes them: some have lines that are only digits
                    let msg = ["annotated", "release\n\n4711\n", "2020\n", "build\n123456\nnotes", "1\n", "Release 1.2.3\n\nbuild 4711"][(name + c) % 6];
                    self.git(&["tag", "-a", "-m", msg, &nm, &h], Some(t))?;
                } else {
                    self.git(&["tag", &nm, &h], None)?;
                }
                self.model.tags.push(TagM { name: nm, commit: c, annotated: *annotated });
            }
            Op::TagUnreachable { name } => {
                let nm = TAGS[name % TAGS.len()].to_string();
                if self.model.tags.iter().any(|t| t.name == nm) {
                    return Ok(());
                }
                self.clean_tree()?;
                // commit on a detached side line from the root, tag it, come back
                let back = self.model.head.clone();
                let root = self.model.commits[0].hash.clone();
                self.git(&["checkout", "-q", "--detach", &root], None)?;
                self.model.head = HeadM::Detached(0);
                let c = self.new_commit(250_000)?;
                let h = self.model.commits[c].hash.clone();
                self.git(&["tag", &nm, &h], None)?;
                self.model.tags.push(TagM { name: nm, commit: c, annotated: false });
                match &back {
                    HeadM::Branch(b) => {
                        self.git(&["switch", "-q", "--no-guess", b], None)?;
                    }
                    HeadM::Detached(d) => {
                        let h = self.model.commits[*d].hash.clone();
                        self.git(&["checkout", "-q", "--detach", &h], None)?;
                    }
                }
                self.model.head = back;
            }
            Op::DeleteTag { which } => {
                if self.model.tags.is_empty() {
                    return Ok(());
                }
                let i = which % self.model.tags.len();
                let nm = self.model.tags[i].name.clone();
                self.git(&["tag", "-d", &nm], None)?;
                self.model.tags.remove(i);
            }
            Op::DirtyModify => {
                std::fs::write(self.dir.join("f0.txt"), "modified\n").map_err(|e| e.to_string())?;
                self.model.modified = true;
            }
            Op::DirtyMode => {
                use std::os::unix::fs::PermissionsExt;
                let f = self.dir.join("f0.txt");
                let mode = std::fs::metadata(&f).map_err(|e| e.to_string())?.permissions().mode();
                std::fs::set_permissions(&f, std::fs::Permissions::from_mode(mode ^ 0o111)).map_err(|e| e.to_string())?;
                // a second flip restores the recorded mode: the model follows git's own view of this one file
                let st = self.git(&["status", "--porcelain", "--", "f0.txt"], None)?;
                self.model.modified = !st.is_empty();
                self.log.push("chmod (flip +x) f0.txt".into());
            }
            Op::DirtyStage => {
                std::fs::write(self.dir.join("staged.txt"), "s\n").map_err(|e| e.to_string())?;
                self.git(&["add", "staged.txt"], None)?;
                self.model.staged = true;
            }
            Op::DirtyUntracked => {
                std::fs::write(self.dir.join("untracked.txt"), "u\n").map_err(|e| e.to_string())?;
                self.model.untracked = true;
            }
            Op::IgnoredOnly => {
                std::fs::write(self.dir.join("scratch.ign"), "i\n").map_err(|e| e.to_string())?;
                std::fs::create_dir_all(self.dir.join("ignored")).map_err(|e| e.to_string())?;
                std::fs::write(self.dir.join("ignored").join("x"), "i\n").map_err(|e| e.to_string())?;
            }
            Op::Clean => self.clean_tree()?,
            Op::TouchUnchanged => {
                let f = self.dir.join("f0.txt");
                let bytes = std::fs::read(&f).map_err(|e| e.to_string())?;
                std::fs::write(&f, &bytes).map_err(|e| e.to_string())?;
                let when = std::time::SystemTime::now() + std::time::Duration::from_secs(3600 + (self.log.len() as u64 % 7) * 60);
                std::fs::File::options().write(true).open(&f).and_then(|h| h.set_modified(when)).map_err(|e| e.to_string())?;
                self.log.push("rewrite f0.txt with identical content, new mtime".into());
            }
            Op::TagNumbered { n } => {
                let nm = format!("v0.{n}.0");
                if self.model.tags.iter().any(|t| t.name == nm) {
                    return Ok(());
                }
                let c = self.model.head_commit();
                let h = self.model.commits[c].hash.clone();
                self.git(&["tag", &nm, &h], None)?;
                self.model.tags.push(TagM { name: nm, commit: c, annotated: false });
            }
            Op::BranchLikeTag { which } => {
                if self.model.tags.is_empty() {
                    return Ok(());
                }
                let t = self.model.tags[which % self.model.tags.len()].clone();
                if self.model.branches.iter().any(|b| b.0 == t.name) || !t.name.bytes().all(|b| b.is_ascii_alphanumeric() || matches!(b, b'.' | b'-' | b'+' | b'_')) {
                    return Ok(());
                }
                let h = self.model.commits[t.commit].hash.clone();
                self.git(&["branch", &t.name, &h], None)?;
                self.model.branches.push((t.name.clone(), t.commit));
            }
            Op::FileLikeRef { which, tracked } => {
                let name = if self.model.tags.is_empty() || which % 4 == 3 {
                    "HEAD".to_string()
                } else {
                    self.model.tags[which % self.model.tags.len()].name.clone()
                };
                if name.contains('/') || name.is_empty() {
                    return Ok(());
                }
                if *tracked {
                    self.clean_tree()?;
                    let n = self.model.commits.len();
                    std::fs::write(self.dir.join(&name), "ref\n").map_err(|e| e.to_string())?;
                    std::fs::write(self.dir.join(format!("f{n}.txt")), format!("{n}\n")).map_err(|e| e.to_string())?;
                    self.git(&["add", "--", &name, &format!("f{n}.txt")], None)?;
                    let t = self.time(0);
                    self.git(&["commit", "-q", "-m", &format!("c{n} adds a file named {name}")], Some(t))?;
                    let h = self.git(&["rev-parse", "HEAD"], None)?;
                    let parent = self.model.head_commit();
                    self.model.commits.push(CommitM { parents: vec![parent], time: t, hash: h });
                    self.advance_head(n);
                } else if !self.dir.join(&name).exists() {
                    std::fs::write(self.dir.join(&name), "ref\n").map_err(|e| e.to_string())?;
                    self.model.untracked = true;
                }
                self.log.push(format!("a file named {name} ({})", if *tracked { "committed" } else { "untracked" }));
            }
            Op::Repack { gc } => {
                self.git(&["pack-refs", "--all", "--prune"], None)?;
                if *gc {
                    self.git(&["gc", "-q", "--prune=now"], None)?;
                }
            }
            Op::TagNonCommit { blob } => {
                let nm = if *blob { "99.0.0" } else { "v98.0.0" };
                if self.model.tags.iter().any(|t| t.name == nm) || self.dir.join(".git").join("refs").join("tags").join(nm).exists() {
                    return Ok(());
                }
                let obj = self.git(&["rev-parse", if *blob { "HEAD:.gitignore" } else { "HEAD^{tree}" }], None)?;
                // lightweight for the blob, annotated for the tree (both occur in the wild)
                if *blob {
                    self.git(&["tag", nm, &obj], None)?;
                } else {
                    let t = self.model.next_time + 5;
                    self.git(&["tag", "-a", "-m", "tree", nm, &obj], Some(t))?;
                }
            }
            Op::ForeignRef { kind, at } => {
                let c = at % self.model.commits.len();
                let h = self.model.commits[c].hash.clone();
                let r = ["refs/remotes/origin/feature/remote-only", "refs/remotes/origin/9.9.9", "refs/remotes/origin/tags/v9.8.7", "refs/notes/v9.7.0", "refs/original/refs/tags/v9.6.0", "refs/pull/12/head"][kind % 6];
                self.git(&["update-ref", r, &h], None)?;
            }
            Op::OrphanMerge { tag, time_skew } => {
                self.clean_tree()?;
                let back = self.model.head.clone();
                let n = self.model.commits.len();
                let nm = format!("orphan{n}");
                self.git(&["checkout", "-q", "--orphan", &nm], None)?;
                // the index keeps HEAD's files: the new root has the same content (so every later
                // merge is conflict-free and the base files exist on every line) but no parent
                std::fs::write(self.dir.join(format!("o{n}.txt")), format!("{n}\n")).map_err(|e| e.to_string())?;
                self.git(&["add", &format!("o{n}.txt")], None)?;
                let t = self.time(-(*time_skew));
                self.git(&["commit", "-q", "-m", &format!("o{n}")], Some(t))?;
                let h = self.git(&["rev-parse", "HEAD"], None)?;
                self.model.commits.push(CommitM { parents: vec![], time: t, hash: h.clone() });
                self.model.branches.push((nm.clone(), n));
                if let Some(k) = tag {
                    let tn = TAGS[k % TAGS.len()].to_string();
                    if !self.model.tags.iter().any(|t| t.name == tn) {
                        self.git(&["tag", &tn, &h], None)?;
                        self.model.tags.push(TagM { name: tn, commit: n, annotated: false });
                    }
                }
                match &back {
                    HeadM::Branch(b) => {
                        self.git(&["switch", "-q", "--no-guess", b], None)?;
                    }
                    HeadM::Detached(d) => {
                        let h = self.model.commits[*d].hash.clone();
                        self.git(&["checkout", "-q", "--detach", &h], None)?;
                    }
                }
                self.model.head = back;
                let head = self.model.head_commit();
                let t2 = self.time(*time_skew);
                self.git(&["merge", "-q", "--no-ff", "--no-edit", "--allow-unrelated-histories", "-m", "merge unrelated", &h], Some(t2))?;
                let mh = self.git(&["rev-parse", "HEAD"], None)?;
                let m = self.model.commits.len();
                self.model.commits.push(CommitM { parents: vec![head, n], time: t2, hash: mh });
                self.model.merges += 1;
                self.advance_head(m);
            }
            Op::EmptyDir => {
                std::fs::create_dir_all(self.dir.join("emptydir").join("nested")).map_err(|e| e.to_string())?;
                self.log.push("mkdir -p emptydir/nested".into());
            }
        }
        Ok(())
    }
    pub fn path(&self) -> String {
        self.dir.to_string_lossy().into_owned()
    }
}

/// A repository whose HEAD commit (or its parent, with `commits_after`) carries the given tag
/// names (those git accepts as ref names), optionally with a branch named like one of them.
/// Returns the repository and the names actually created.
pub fn repo_with_tags(names: &[String], decoy: Option<usize>, commits_after: u8) -> Result<(Repo, Vec<String>), String> {
    let mut repo = Repo::new()?;
    let mut made: Vec<String> = Vec::new();
    for n in names {
        if made.contains(n) || n.starts_with('-') || n.is_empty() {
            continue;
        }
        let mut chk = Command::new("git");
        git_env(&mut chk);
        let ok = chk.current_dir(&repo.dir).args(["check-ref-format", &format!("refs/tags/{n}")]).status().map(|s| s.success()).unwrap_or(false);
        if !ok {
            continue;
        }
        let mut cmd = Command::new("git");
        git_env(&mut cmd);
        if cmd.current_dir(&repo.dir).args(["tag", "--", n]).status().map(|s| s.success()).unwrap_or(false) {
            made.push(n.clone());
            repo.log.push(format!("git tag {n}"));
        }
    }
    if let Some(d) = decoy
        && !made.is_empty()
    {
        let n = made[d % made.len()].clone();
        let mut cmd = Command::new("git");
        git_env(&mut cmd);
        let _ = cmd.current_dir(&repo.dir).args(["branch", "--", &n]).status();
        repo.log.push(format!("git branch {n}"));
    }
    for _ in 0..commits_after {
        repo.apply(&Op::Commit { time_skew: 0 })?;
    }
    Ok((repo, made))
}
