//! zv — property-based / fuzzing verification engine for wislertt/zerv (see /verif/DESIGN.md)
use zv::{oracle, props, runner};
use runner::Tier;

fn usage() -> ! {
    eprintln!("usage: zv <ID> [quick|thorough] [--seed N] [--only sub-check] [--replay file]");
    std::process::exit(2)
}

fn main() {
    let args: Vec<String> = std::env::args().skip(1).collect();
    if args.is_empty() {
        usage();
    }
    if args[0] == "oracle" {
        // line protocol for cross-checking the reference models against external references
        // (tools/xcheck_oracles.py): one candidate per line (JSON string) -> verdict
        use std::io::BufRead;
        let which = args.get(1).map(|s| s.as_str()).unwrap_or("");
        for line in std::io::stdin().lock().lines() {
            let line = line.unwrap();
            let s: String = serde_json::from_str(&line).unwrap();
            match which {
                "pep440" => match oracle::pep440::parse(&s) {
                    Some(p) => println!("ok\t{}", oracle::pep440::normal_form(&p)),
                    None => println!("reject"),
                },
                "semver" => match oracle::semver::parse(&s) {
                    Some(p) => println!("ok\t{}", oracle::semver::print(&p)),
                    None => println!("reject"),
                },
                _ => usage(),
            }
        }
        return;
    }
    let id = args[0].clone();
    let mut tier = match std::env::var("VERIF_TIER").as_deref() {
        Ok("thorough") => Tier::Thorough,
        _ => Tier::Quick,
    };
    let mut seed: u64 = std::env::var("VERIF_SEED").ok().and_then(|s| s.trim().parse::<i128>().ok()).map(|v| v as u64).unwrap_or(0);
    let mut only: Option<String> = None;
    let mut replay: Option<String> = None;
    let mut i = 1;
    while i < args.len() {
        match args[i].as_str() {
            "quick" => tier = Tier::Quick,
            "thorough" => tier = Tier::Thorough,
            "--seed" => {
                i += 1;
                seed = args.get(i).and_then(|s| s.parse().ok()).unwrap_or_else(|| usage());
            }
            "--only" => {
                i += 1;
                only = args.get(i).cloned();
            }
            "--replay" => {
                i += 1;
                replay = args.get(i).cloned();
            }
            _ => usage(),
        }
        i += 1;
    }
    let root = std::path::PathBuf::from(std::env::var("VERIF_ROOT").unwrap_or_else(|_| "/verif".into()));
    // The harness owns the time zone of the in-process layer: everything zerv prints must be
    // UTC (C14/C17), so the whole L1 layer runs 14 hours away from UTC; any use of local time
    // then disagrees with the UTC oracles.  (L2 runs set TZ per case.)
    // SAFETY: single-threaded at this point.
    unsafe { std::env::set_var("TZ", std::env::var("VERIF_TZ").unwrap_or_else(|_| "<+14>-14".into())) };
    // hermetic working directory: relative paths and `--source git` without -C must not see /verif
    let _ = std::env::set_current_dir("/");
    runner::install_panic_hook();
    // C13 in-process: what `-v` / RUST_LOG=trace would do in the binary.  `tracing` evaluates
    // the arguments of debug!/trace! only when a subscriber enables the call site, so without
    // one a panic hidden in a log argument is unreachable from the library calls.  Everything
    // is formatted and thrown away.
    if id == "C13" || std::env::var("VERIF_TRACE").is_ok() {
        let _ = tracing_subscriber::fmt().with_writer(std::io::sink).with_max_level(tracing::Level::TRACE).try_init();
    }
    // global watchdog: a hang is "inconclusive" (exit 2), never a violation
    let limit = std::env::var("VERIF_WATCHDOG_S").ok().and_then(|s| s.parse().ok()).unwrap_or(tier.pick(1500u64, 6 * 3600));
    std::thread::spawn(move || {
        std::thread::sleep(std::time::Duration::from_secs(limit));
        println!("INFRA: watchdog expired after {limit}s — inconclusive");
        std::process::exit(2);
    });
    let Some(p) = props::by_id(&id) else {
        eprintln!("unknown property {id}; known: {:?}", props::ALL);
        std::process::exit(2);
    };
    let out = match replay {
        Some(path) => runner::replay_file(&p, &root, &path),
        None => runner::run_property(&p, tier, seed, &root, only.as_deref()),
    };
    std::process::exit(out.exit);
}
