//! C05 — override, bump and reset semantics follow the precedence order (DESIGN.md §6 C05).
//!
//! Model assumptions taken from the CLI help / code because the statement is silent:
//!  * --pre-release-num / --bump-pre-release-num on a version without pre-release create `alpha`;
//!  * a label override keeps the existing number unless --pre-release-num is given (else 0);
//!  * epoch 0 is emitted as absent;
//!  * bumping a *text* literal through an index is unspecified: its resulting text is not judged;
//!  * a dirty state replaces bumped_timestamp by the wall clock (masked).
use crate::cli;
use crate::gens;
use crate::gens::flags::{self, Flag};
use crate::gens::zervgen as zg;
use crate::model::*;
use crate::oracle::bump::{self as obump, IdxOp, Ops, Outcome, Section};
use crate::props::c07::Canon;
use crate::runner::*;
use proptest::prelude::*;
use serde::{Deserialize, Serialize};
use std::str::FromStr;

pub const FIXED: [&str; 16] = [
    "standard-base", "standard-base-prerelease", "standard-base-prerelease-post", "standard-base-prerelease-post-dev",
    "standard-base-context", "standard-base-prerelease-context", "standard-base-prerelease-post-context", "standard-base-prerelease-post-dev-context",
    "calver-base", "calver-base-prerelease", "calver-base-prerelease-post", "calver-base-prerelease-post-dev",
    "calver-base-context", "calver-base-prerelease-context", "calver-base-prerelease-post-context", "calver-base-prerelease-post-dev-context",
];

#[derive(Debug, Clone, Hash, Serialize, Deserialize)]
pub enum Start {
    SemverTag(Canon),
    PepTag(gens::pep::PepV, gens::pep::Spelling),
    Stdin(MZerv),
    /// an object on stdin plus `--tag-version`: the tag replaces every version field and
    /// `last_tag_version`, nothing else (last_timestamp, hashes, branches, custom stay)
    StdinTag(MZerv, Canon),
}
#[derive(Debug, Clone, Hash, Serialize, Deserialize)]
pub enum Sel {
    Fixed(usize),
    Ron(MSchema),
    FromStdin,
}
#[derive(Debug, Clone, Hash, Serialize, Deserialize, Default)]
pub struct Ctx {
    pub distance: Option<u64>,
    pub dirt: u8, // 0 none, 1 --dirty, 2 --no-dirty, 3 --clean
    pub no_bump_context: bool,
    pub branch: Option<String>,
    pub hash: Option<String>,
    pub ts: Option<u64>,
}
#[derive(Debug, Clone, Hash, Serialize, Deserialize)]
pub struct RawIdx {
    pub section: Section,
    pub pos: usize,
    pub spelling: u8, // 0 positive, 1 negative, 2 tilde
    pub value: Option<String>,
    pub bump: bool,
}
#[derive(Debug, Clone, Hash, Serialize, Deserialize)]
pub struct Case {
    pub start: Start,
    pub sel: Sel,
    pub ctx: Ctx,
    pub ops: Ops, // idx empty here; RawIdx are made concrete against the schema in effect
    pub raw_idx: Vec<RawIdx>,
    pub perm: u64,
}

fn start_state(c: &Case) -> (MVars, Option<MSchema>, Vec<Flag>, Option<String>) {
    match &c.start {
        Start::SemverTag(k) => {
            let tag = k.semver();
            let n = |s: &String| s.parse::<u64>().ok();
            let vars = MVars {
                major: n(&k.core[0]),
                minor: n(&k.core[1]),
                patch: n(&k.core[2]),
                epoch: k.epoch.as_ref().and_then(n),
                pre_release: k.pre.as_ref().map(|(l, x)| (*l, n(x))),
                post: k.post.as_ref().and_then(n),
                dev: k.dev.as_ref().and_then(n),
                last_tag_version: Some(tag.clone()),
                ..Default::default()
            };
            (vars, None, vec![Flag::v("tag-version", tag), Flag::v("input-format", "semver")], None)
        }
        Start::PepTag(p, sp) => {
            let tag = gens::pep::spell(p, sp, false);
            let vars = MVars {
                major: p.release.first().copied(),
                minor: p.release.get(1).copied(),
                patch: p.release.get(2).copied(),
                epoch: (p.epoch > 0).then_some(p.epoch),
                pre_release: p.pre.map(|(l, n)| (l, Some(n))),
                post: p.post,
                dev: p.dev,
                last_tag_version: Some(tag.clone()),
                ..Default::default()
            };
            (vars, None, vec![Flag::v("tag-version", tag), Flag::v("input-format", "pep440")], None)
        }
        Start::Stdin(z) => {
            let text = z.to_zerv().map(|z| z.to_string()).ok();
            (z.vars.clone(), Some(z.schema.clone()), vec![], text)
        }
        Start::StdinTag(z, k) => {
            let text = z.to_zerv().map(|z| z.to_string()).ok();
            let tag = k.semver();
            let n = |s: &String| s.parse::<u64>().ok();
            let mut vars = z.vars.clone();
            vars.major = n(&k.core[0]);
            vars.minor = n(&k.core[1]);
            vars.patch = n(&k.core[2]);
            vars.epoch = k.epoch.as_ref().and_then(n);
            vars.pre_release = k.pre.as_ref().map(|(l, x)| (*l, n(x)));
            vars.post = k.post.as_ref().and_then(n);
            vars.dev = k.dev.as_ref().and_then(n);
            vars.last_tag_version = Some(tag.clone());
            (vars, Some(z.schema.clone()), vec![Flag::v("tag-version", tag), Flag::v("input-format", "semver")], text)
        }
    }
}

fn apply_ctx(v: &mut MVars, ctx: &Ctx) {
    if let Some(d) = ctx.distance {
        v.distance = Some(d);
    }
    match ctx.dirt {
        1 => v.dirty = Some(true),
        2 => v.dirty = Some(false),
        _ => {}
    }
    if let Some(b) = &ctx.branch {
        v.bumped_branch = Some(b.clone());
    }
    if let Some(h) = &ctx.hash {
        v.bumped_commit_hash = Some(h.clone());
    }
    if let Some(t) = ctx.ts {
        v.bumped_timestamp = Some(t);
    }
    if ctx.dirt == 3 {
        v.distance = None;
        v.dirty = Some(false);
    }
}
fn apply_no_bump_context(v: &mut MVars, ctx: &Ctx) {
    if ctx.no_bump_context {
        v.distance = Some(0);
        v.dirty = Some(false);
        v.bumped_branch = None;
        v.bumped_commit_hash = None;
        v.bumped_timestamp = None;
    }
}

fn concretize(raw: &[RawIdx], schema: &MSchema) -> Vec<IdxOp> {
    raw.iter()
        .map(|r| {
            let len = match r.section {
                Section::Core => schema.core.len(),
                Section::ExtraCore => schema.extra_core.len(),
                Section::Build => schema.build.len(),
            } as i64;
            let pos = r.pos as i64;
            let index = match r.spelling {
                0 => pos.to_string(),
                1 => format!("{}", pos - len.max(1) - if pos >= len { len } else { 0 }).replace("--", "-"),
                _ => format!("~{}", if pos < len { len - pos } else { pos + 1 }),
            };
            // spelling 1 for in-range pos gives pos-len (negative); for out-of-range something below -len
            let index = if r.spelling == 1 && !index.starts_with('-') { format!("-{}", len + 1 + pos) } else { index };
            IdxOp { section: r.section, index, value: r.value.clone(), bump: r.bump }
        })
        .collect()
}

fn flags_of(ops: &Ops, ctx: &Ctx) -> Vec<Flag> {
    let mut f = Vec::new();
    if let Some(d) = ctx.distance {
        f.push(Flag::v("distance", d));
    }
    match ctx.dirt {
        1 => f.push(Flag::b("dirty")),
        2 => f.push(Flag::b("no-dirty")),
        3 => f.push(Flag::b("clean")),
        _ => {}
    }
    if ctx.no_bump_context {
        f.push(Flag::b("no-bump-context"));
    }
    if let Some(b) = &ctx.branch {
        f.push(Flag::v("bumped-branch", b));
    }
    if let Some(h) = &ctx.hash {
        f.push(Flag::v("bumped-commit-hash", h));
    }
    if let Some(t) = ctx.ts {
        f.push(Flag::v("bumped-timestamp", t));
    }
    let ov = [("epoch", ops.epoch), ("major", ops.major), ("minor", ops.minor), ("patch", ops.patch), ("pre-release-num", ops.pre_num), ("post", ops.post), ("dev", ops.dev)];
    for (n, v) in ov {
        if let Some(v) = v {
            f.push(Flag::v(n, v));
        }
    }
    let bumps = [
        ("bump-epoch", ops.bump_epoch), ("bump-major", ops.bump_major), ("bump-minor", ops.bump_minor), ("bump-patch", ops.bump_patch),
        ("bump-pre-release-num", ops.bump_pre_num), ("bump-post", ops.bump_post), ("bump-dev", ops.bump_dev),
    ];
    for (n, v) in bumps {
        if let Some(v) = v {
            f.push(Flag::new(n, v.map(|x| x.to_string())));
        }
    }
    if let Some(l) = ops.pre_label {
        f.push(Flag::v("pre-release-label", LABELS[l as usize % 3]));
    }
    if let Some(l) = ops.bump_pre_label {
        f.push(Flag::v("bump-pre-release-label", LABELS[l as usize % 3]));
    }
    for o in &ops.idx {
        let name = match (o.section, o.bump) {
            (Section::Core, false) => "core",
            (Section::ExtraCore, false) => "extra-core",
            (Section::Build, false) => "build",
            (Section::Core, true) => "bump-core",
            (Section::ExtraCore, true) => "bump-extra-core",
            (Section::Build, true) => "bump-build",
        };
        f.push(Flag::v(name, match &o.value { Some(v) => format!("{}={}", o.index, v), None => o.index.clone() }));
    }
    f
}

fn shuffle<T>(v: &mut [T], mut seed: u64) {
    for i in (1..v.len()).rev() {
        seed = splitmix(seed);
        v.swap(i, (seed % (i as u64 + 1)) as usize);
    }
}

fn levels_touched(ops: &Ops) -> usize {
    [
        ops.epoch.is_some() || ops.bump_epoch.is_some(),
        ops.major.is_some() || ops.bump_major.is_some(),
        ops.minor.is_some() || ops.bump_minor.is_some(),
        ops.patch.is_some() || ops.bump_patch.is_some(),
        ops.pre_label.is_some() || ops.bump_pre_label.is_some(),
        ops.pre_num.is_some() || ops.bump_pre_num.is_some(),
        ops.post.is_some() || ops.bump_post.is_some(),
        ops.dev.is_some() || ops.bump_dev.is_some(),
        !ops.idx.is_empty(),
    ]
    .iter()
    .filter(|b| **b)
    .count()
}

/// F15 (fixed): `~n` index rejected by the early validator of --bump-* although documented
fn check_case(c: &Case, cx: &mut Cx) -> Res {
    let (mut vars, stdin_schema, mut base_flags, stdin_text) = start_state(c);
    if matches!(c.start, Start::Stdin(_) | Start::StdinTag(..)) && stdin_text.is_none() {
        return fail("harness bug: generated stdin object is invalid");
    }
    apply_ctx(&mut vars, &c.ctx);
    apply_no_bump_context(&mut vars, &c.ctx);
    let (schema, schema_flag) = match &c.sel {
        Sel::Fixed(i) => {
            let name = FIXED[*i % FIXED.len()];
            (obump::fixed_preset(name).unwrap(), Some(Flag::v("schema", name)))
        }
        Sel::Ron(s) => (s.clone(), Some(Flag::v("schema-ron", s.to_ron()))),
        Sel::FromStdin => match &stdin_schema {
            Some(s) => (s.clone(), None),
            None => (obump::fixed_preset("standard-base").unwrap(), Some(Flag::v("schema", "standard-base"))),
        },
    };
    let mut ops = c.ops.clone();
    ops.idx = concretize(&c.raw_idx, &schema);
    let start = MZerv { schema, vars };
    let expected = obump::apply(&start, &ops);

    base_flags.push(Flag::v("source", if stdin_text.is_some() { "stdin" } else { "none" }));
    base_flags.extend(schema_flag);
    base_flags.extend(flags_of(&ops, &c.ctx));
    base_flags.push(Flag::v("output-format", "zerv"));
    let argv1 = flags::to_argv(&base_flags);
    let mut shuffled = base_flags.clone();
    shuffle(&mut shuffled, c.perm);
    let argv2 = flags::to_argv(&shuffled);

    let now = || std::time::SystemTime::now().duration_since(std::time::UNIX_EPOCH).map(|d| d.as_secs()).unwrap_or(0);
    let t0 = now();
    let r1 = cli::version(&argv1, stdin_text.as_deref());
    let t1 = now();
    let r2 = cli::version(&argv2, stdin_text.as_deref());
    cx.nt_if(levels_touched(&ops) >= 2 || !ops.idx.is_empty());
    cx.label_if(!ops.idx.is_empty(), "index-op");
    cx.label_if(matches!(expected, Outcome::Reject(_)), "model-rejects");
    cx.label_if(matches!(c.start, Start::Stdin(_)), "stdin-start");
    cx.label_if(matches!(c.start, Start::StdinTag(..)), "stdin-start+tag-version");
    cx.note(|| format!("{argv1:?} -> {}", r1.describe().chars().take(200).collect::<String>()));
    if let cli::Run::Panic(p) = &r1 {
        return fail(format!("zerv panicked on {argv1:?}: {p}"));
    }
    // O2: flag order is irrelevant
    let dirty_clock = start.vars.dirty == Some(true);
    match (&r1, &r2) {
        (cli::Run::Ok(a), cli::Run::Ok(b)) => {
            if !dirty_clock {
                ensure!(a == b, "flag order changes the result:\n  {argv1:?}\n  {argv2:?}");
            }
        }
        (a, b) => ensure!(a.is_ok() == b.is_ok(), "flag order changes success/failure: {argv1:?} -> {} but {argv2:?} -> {}", a.describe(), b.describe()),
    }
    match (&expected, &r1) {
        (Outcome::Reject(why), cli::Run::Ok(out)) => fail(format!("invalid target must be rejected ({why}) but {argv1:?} produced output {:?}", out.chars().take(300).collect::<String>())),
        (Outcome::Reject(_), _) => Ok(()),
        (Outcome::Ok { .. }, cli::Run::Usage(e)) => fail(format!("valid flags rejected by the argument parser: {argv1:?}: {}", e.lines().next().unwrap_or(""))),
        (Outcome::Ok { .. }, cli::Run::Err(e)) => fail(format!("valid operation rejected: {argv1:?}: {e}")),
        (Outcome::Ok { z, free_literals }, cli::Run::Ok(out)) => {
            let got = zerv::version::Zerv::from_str(out).map_err(|e| Bad::Fail(format!("emitted object does not parse: {e}")))?;
            let mut got = MZerv::from_zerv(&got);
            let mut want = z.clone();
            if want.vars.dirty == Some(true) {
                // a dirty state is stamped with the wall clock, whatever the input or --bumped-timestamp says
                ensure!(got.vars.bumped_timestamp.is_some_and(|t| t >= t0 && t <= t1), "dirty: bumped_timestamp {:?} is not the wall clock [{t0},{t1}] for {argv1:?}", got.vars.bumped_timestamp);
                want.vars.bumped_timestamp = None;
                got.vars.bumped_timestamp = None;
            }
            for (sec, i) in free_literals {
                let (a, b) = match sec {
                    Section::Core => (&mut want.schema.core, &mut got.schema.core),
                    Section::ExtraCore => (&mut want.schema.extra_core, &mut got.schema.extra_core),
                    Section::Build => (&mut want.schema.build, &mut got.schema.build),
                };
                if *i < a.len() && *i < b.len() && matches!(b[*i], MComp::Str(_)) {
                    a[*i] = MComp::Str(String::new());
                    b[*i] = MComp::Str(String::new());
                }
            }
            if got.vars != want.vars {
                return fail(format!("vars differ for {argv1:?}\n  zerv : {:?}\n  model: {:?}", got.vars, want.vars));
            }
            ensure!(got.schema == want.schema, "schema differs for {argv1:?}\n  zerv : {}\n  model: {}", got.schema.to_ron(), want.schema.to_ron());
            Ok(())
        }
        (_, cli::Run::Panic(_)) => unreachable!(),
    }
}

fn amount() -> BoxedStrategy<u64> {
    prop_oneof![4 => 0u64..5, 2 => gens::num::u32_biased(), 1 => Just(u32::MAX as u64)].boxed()
}
fn ops_strategy() -> BoxedStrategy<Ops> {
    let ov = || proptest::option::weighted(0.15, amount());
    let bp = || proptest::option::weighted(0.15, proptest::option::weighted(0.6, amount()));
    (
        (ov(), ov(), ov(), ov(), ov(), ov(), ov()),
        (bp(), bp(), bp(), bp(), bp(), bp(), bp()),
        proptest::option::weighted(0.15, 0u8..3),
        proptest::option::weighted(0.12, 0u8..3),
    )
        .prop_map(|((epoch, major, minor, patch, pre_num, post, dev), (be, bma, bmi, bpa, bpn, bpo, bd), pre_label, bump_pre_label)| Ops {
            epoch, major, minor, patch, pre_label, pre_num, post, dev,
            bump_epoch: be, bump_major: bma, bump_minor: bmi, bump_patch: bpa, bump_pre_label, bump_pre_num: bpn, bump_post: bpo, bump_dev: bd,
            idx: vec![],
        })
        .boxed()
}
fn raw_idx() -> BoxedStrategy<Vec<RawIdx>> {
    prop_oneof![3 => Just(Vec::new()), 3 => raw_idx_vec()].boxed()
}
fn raw_idx_vec() -> BoxedStrategy<Vec<RawIdx>> {
    proptest::collection::vec(
        (
            gens::pick(&[Section::Core, Section::ExtraCore, Section::Build]),
            prop_oneof![6 => 0usize..3, 1 => 3usize..6],
            0u8..3,
            prop_oneof![8 => amount().prop_map(|n| Some(n.to_string())), 2 => Just(None), 1 => gens::pick(&["x", "rc1", "a b", "5x", "-1", "1.5", "é"]).prop_map(|s| Some(s.to_string())), 1 => gens::pick(&["alpha", "beta", "rc", "post", "dev", "none"]).prop_map(|s| Some(s.to_string()))],
            any::<bool>(),
        )
            .prop_map(|(section, pos, spelling, value, bump)| RawIdx { section, pos, spelling, value: if bump { value } else { Some(value.unwrap_or_else(|| "7".into())) }, bump }),
        1..6,
    )
    .boxed()
}
fn canon_start() -> BoxedStrategy<Canon> {
    let n = || prop_oneof![3 => 0u64..6, 1 => gens::num::u32_biased(), 1 => gens::num::u64_biased()];
    (
        (n(), n(), n()),
        proptest::option::weighted(0.3, (1u64..5)),
        proptest::option::weighted(0.5, (0u8..3, proptest::option::weighted(0.8, n()))),
        proptest::option::weighted(0.4, n()),
        proptest::option::weighted(0.4, n()),
    )
        .prop_map(|((a, b, c), epoch, pre, post, dev)| Canon {
            core: [a.to_string(), b.to_string(), c.to_string()],
            epoch: epoch.map(|e| e.to_string()),
            // a fifth of the pre-releases are a bare label ("1.0.0-rc"); nothing may follow it: zerv
            // reads the identifiers after a label without a number as literal text, which is outside
            // the canonical shape C05/C07 speak about
            pre: pre.map(|(l, x)| (l, x.map(|x| x.to_string()).unwrap_or_default())),
            post: if matches!(pre, Some((_, None))) { None } else { post.map(|x| x.to_string()) },
            dev: if matches!(pre, Some((_, None))) { None } else { dev.map(|x| x.to_string()) },
            build: vec![],
        })
        .boxed()
}
fn ctx_strategy() -> BoxedStrategy<Ctx> {
    (
        proptest::option::weighted(0.3, gens::num::u32_biased()),
        prop_oneof![4 => Just(0u8), 1 => Just(1), 1 => Just(2), 1 => Just(3)],
        prop::bool::weighted(0.1),
        proptest::option::weighted(0.3, gens::text::nasty()),
        proptest::option::weighted(0.2, zg::hash_text()),
        proptest::option::weighted(0.2, zg::timestamp()),
    )
        .prop_map(|(distance, dirt, nbc, branch, hash, ts)| {
            let mut c = Ctx { distance, dirt, no_bump_context: nbc, branch, hash, ts };
            if c.dirt == 3 {
                c.distance = None; // --clean conflicts with --distance
            }
            if c.no_bump_context && c.dirt == 1 {
                c.dirt = 0; // --no-bump-context conflicts with --dirty
            }
            c
        })
        .boxed()
}
pub fn case_strategy() -> BoxedStrategy<Case> {
    let start = prop_oneof![
        3 => canon_start().prop_map(Start::SemverTag),
        1 => (gens::pep::pepv(3), gens::pep::spelling()).prop_map(|(mut p, s)| { p.local = None; Start::PepTag(p, s) }),
        3 => zg::mzerv(true).prop_map(|mut z| { z.vars.epoch = z.vars.epoch.filter(|e| *e > 0); Start::Stdin(z) }),
        1 => (zg::mzerv(true), canon_start(), prop::bool::weighted(0.4)).prop_map(|(mut z, k, same)| {
            // the object may already carry this very tag as last_tag_version (an earlier stage
            // bumped the version away from it): the override still sets every version field
            if same {
                z.vars.last_tag_version = Some(k.semver());
            }
            Start::StdinTag(z, k)
        }),
    ];
    (start, prop_oneof![3 => (0usize..16).prop_map(Sel::Fixed), 3 => zg::valid_schema().prop_map(Sel::Ron), 2 => Just(Sel::FromStdin)], ctx_strategy(), ops_strategy(), raw_idx(), any::<u64>())
        .prop_map(|(start, sel, ctx, ops, raw_idx, perm)| Case { start, sel, ctx, ops, raw_idx, perm })
        .boxed()
}

pub fn property() -> Property {
    let model = RandomSub::<Case>::new("bump-model", (60_000, 1_500_000), |_| case_strategy(), check_case).floor(0.3);
    // exhaustive: all 2^11 subsets of {one bump per level, amount 1} on three start versions
    let subsets = EnumSub::<Case>::new(
        "enum-bump-subsets",
        "all 2^8 subsets of the eight by-name bumps (amount 1) x all 2^3 subsets of index bumps at core[0]/extra_core[0]/extra_core[last] on three start versions with schema standard-base-prerelease-post-dev (6144 cases)",
        |_tier, shard, n, visit| {
            let starts = ["1.2.3", "1.2.3-epoch.2.rc.4.post.5.dev.6", "0.0.0-alpha.0"];
            let mut idx = 0usize;
            for (si, s) in starts.iter().enumerate() {
                for mask in 0u32..(1 << 11) {
                    if idx % n == shard {
                        let b = |k: u32| if mask & (1 << k) != 0 { Some(None) } else { None };
                        let sem = crate::oracle::semver::parse(s).unwrap();
                        let pre = sem.pre.clone().unwrap_or_default();
                        let find = |l: &str| pre.iter().position(|x| x == l).map(|i| pre[i + 1].clone());
                        let canon = Canon {
                            core: [sem.major.clone(), sem.minor.clone(), sem.patch.clone()],
                            epoch: find("epoch"),
                            pre: ["alpha", "beta", "rc"].iter().enumerate().find_map(|(i, l)| find(l).map(|n| (i as u8, n))),
                            post: find("post"),
                            dev: find("dev"),
                            build: vec![],
                        };
                        let ops = Ops {
                            bump_epoch: b(0), bump_major: b(1), bump_minor: b(2), bump_patch: b(3),
                            bump_pre_label: if mask & (1 << 4) != 0 { Some(1) } else { None },
                            bump_pre_num: b(5), bump_post: b(6), bump_dev: b(7),
                            ..Default::default()
                        };
                        let mut raw = Vec::new();
                        if mask & (1 << 8) != 0 { raw.push(RawIdx { section: Section::Core, pos: 0, spelling: 0, value: None, bump: true }); }
                        if mask & (1 << 9) != 0 { raw.push(RawIdx { section: Section::ExtraCore, pos: 0, spelling: 1, value: None, bump: true }); }
                        if mask & (1 << 10) != 0 { raw.push(RawIdx { section: Section::ExtraCore, pos: 3, spelling: 2, value: None, bump: true }); }
                        let c = Case { start: Start::SemverTag(canon), sel: Sel::Fixed(3), ctx: Ctx::default(), ops, raw_idx: raw, perm: (mask as u64) << 8 | si as u64 };
                        if !visit(&c) {
                            return;
                        }
                    }
                    idx += 1;
                }
            }
        },
        check_case,
    );
    Property {
        id: "C05",
        rule: "cases = (start version: canonical SemVer tag | PEP 440 tag in any spelling | stdin Zerv object with any valid schema and u64 vars; schema in effect: fixed preset | generated --schema-ron | stdin's; context flags; random subset of the by-name override/bump flags with boundary-biased u32 amounts; up to 2 index-addressed operations in the three index spellings, in and out of range, numeric and non-numeric values; a permutation of the argv). Oracle O1: reference model of the eleven levels (oracle::bump), compared field by field on the emitted Zerv object (vars and schema), rejection expected for invalid targets and overflowing sums; O2: the permuted argv gives the identical output. Plus the exhaustive 2^11 bump subsets on three start versions. Non-trivial = >=2 levels touched or an index-addressed op; distinct = distinct cases.",
        assumptions: vec![
            "--pre-release-num / --bump-pre-release-num on a version without pre-release create alpha",
            "a label override keeps the existing number unless --pre-release-num is given, else 0",
            "epoch 0 is emitted as absent",
            "bumping a text literal through an index is unspecified (resulting text not judged)",
            "smart presets (schema depends on state) are not combined with index ops: fixed presets, --schema-ron and stdin schemas are used",
            "default precedence_order only",
        ],
        subs: vec![model.boxed(), subsets.boxed()],
        known_repro: vec![],
    }
}
