pub mod c16;
use crate::runner::Property;
pub fn by_id(id: &str) -> Option<Property> {
    Some(match id {
        "C16" => c16::property(),
        _ => return None,
    })
}
pub const ALL: &[&str] = &["C16"];
