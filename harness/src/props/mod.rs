pub mod c01;
pub mod c02;
pub mod c03;
pub mod c04;
pub mod c05;
pub mod c06;
pub mod c07;
pub mod c08;
pub mod c09;
pub mod c10;
pub mod c11;
pub mod c12;
pub mod c13;
pub mod c14;
pub mod c15;
pub mod c16;
pub mod c17;
use crate::runner::Property;
pub fn by_id(id: &str) -> Option<Property> {
    Some(match id {
        "C01" => c01::property(),
        "C02" => c02::property(),
        "C03" => c03::property(),
        "C04" => c04::property(),
        "C05" => c05::property(),
        "C06" => c06::property(),
        "C07" => c07::property(),
        "C08" => c08::property(),
        "C09" => c09::property(),
        "C10" => c10::property(),
        "C11" => c11::property(),
        "C12" => c12::property(),
        "C13" => c13::property(),
        "C14" => c14::property(),
        "C15" => c15::property(),
        "C16" => c16::property(),
        "C17" => c17::property(),
        _ => return None,
    })
}
pub const ALL: &[&str] = &["C01", "C02", "C03", "C04", "C05", "C06", "C07", "C08", "C09", "C10", "C11", "C12", "C13", "C14", "C15", "C16", "C17"];
