//! C17 — timestamp patterns and CalVer components are the UTC calendar fields (DESIGN.md §6 C17).
use crate::cli;
use crate::oracle::calendar as cal;
use crate::runner::*;
use proptest::prelude::*;
use serde::{Deserialize, Serialize};
use zerv::version::zerv::resolve_timestamp;

const LAST_DAY: u64 = 84005; // 2199-12-31
const CALVER: [&str; 11] = [
    "calver", "calver-no-context", "calver-base", "calver-base-prerelease", "calver-base-prerelease-post", "calver-base-prerelease-post-dev",
    "calver-base-context", "calver-base-prerelease-context", "calver-base-prerelease-post-context", "calver-base-prerelease-post-dev-context", "calver-context",
];

fn boundary(ts: u64) -> bool {
    let c = cal::civil(ts);
    let next = cal::civil(ts + 1);
    let prev = cal::civil(ts.saturating_sub(1));
    let day_edge = next.day != c.day || prev.day != c.day;
    let leapish = cal::is_leap(c.year) && (c.month == 2 || c.month == 3);
    day_edge || leapish
}

fn check_patterns(ts: &u64, cx: &mut Cx) -> Res {
    let c = cal::civil(*ts);
    cx.nt_if(boundary(*ts));
    cx.label_if(cal::is_leap(c.year), "leap-year");
    cx.label_if(c.week_monday() == 0 || c.week_monday() >= 52, "week-edge");
    for p in cal::PATTERNS {
        let want = cal::pattern_value(p, &c).unwrap();
        let got = match no_panic(|| resolve_timestamp(p, *ts)) {
            Ok(Ok(g)) => g,
            Ok(Err(e)) => return fail(format!("documented pattern {p:?} rejected for timestamp {ts}: {e}")),
            Err(pn) => return fail(format!("resolve_timestamp({p:?}, {ts}) panicked: {pn}")),
        };
        ensure!(got == want, "resolve_timestamp({p:?}, {ts}) = {got:?}, UTC calendar field is {want:?} ({c:?})");
    }
    cx.note(|| format!("{ts} = {:04}-{:02}-{:02}T{:02}:{:02}:{:02}Z week {}", c.year, c.month, c.day, c.hour, c.minute, c.second, c.week_monday()));
    Ok(())
}

/// Timestamps no calendar date-time type can hold (2^63 and above: the true year has twelve digits).
/// Whatever zerv answers for them must not be a value - in particular not the date the number
/// would have after wrapping to a negative i64 (F27: 2^64-1 printed 1969-12-31).
fn check_beyond(ts: &u64, cx: &mut Cx) -> Res {
    cx.nt_if(true);
    cx.label_if(*ts == u64::MAX, "u64::MAX");
    for p in cal::PATTERNS {
        match no_panic(|| resolve_timestamp(p, *ts)) {
            Ok(Err(_)) => {}
            Ok(Ok(g)) => return fail(format!("resolve_timestamp({p:?}, {ts}) = {g:?}: the instant lies {} years after 1970, no such value is its calendar field", *ts / 31_556_952)),
            Err(pn) => return fail(format!("resolve_timestamp({p:?}, {ts}) panicked: {pn}")),
        }
    }
    // the template function, on a stdin object that carries the value
    let doc = stdin_object(Some(*ts), None);
    let argv: Vec<String> = ["--source", "stdin", "--output-template", "<<{{ format_timestamp(value=bumped_timestamp, format=\"%Y-%m-%d\") }}>>"].iter().map(|s| s.to_string()).collect();
    match cli::version(&argv, Some(&doc)) {
        cli::Run::Ok(out) => return fail(format!("format_timestamp(value={ts}) renders {out:?}: the instant lies {} years after 1970", *ts / 31_556_952)),
        cli::Run::Panic(pn) => return fail(format!("format_timestamp(value={ts}) panicked: {pn}")),
        cli::Run::Usage(e) => return fail(format!("harness bug: usage error {e}")),
        cli::Run::Err(_) => {}
    }
    cx.note(|| format!("{ts}: every pattern and format_timestamp() refuse it"));
    Ok(())
}

#[derive(Debug, Clone, Hash, Serialize, Deserialize)]
struct CalverCase {
    ts: u64,
    preset: usize,
    pep440: bool,
    /// 0: --bumped-timestamp on source none; 1: stdin object with only last_timestamp;
    /// 2: stdin object with both (bumped must win); 3: as 1 plus --tag-version (overriding the tag's
    /// version keeps the tag's time); 4: as 2 plus --no-bump-context (commit time dropped: the tag
    /// time is what is left); 5: as 4 plus --tag-version
    mode: u8,
    other_ts: u64,
}

fn leading_numbers(s: &str) -> Vec<String> {
    // numbers of the release part: split at the first of '-', '+', or a letter
    let end = s.find(|c: char| !(c.is_ascii_digit() || c == '.')).unwrap_or(s.len());
    s[..end].trim_end_matches('.').split('.').map(String::from).collect()
}

fn stdin_object(bumped: Option<u64>, last: Option<u64>) -> String {
    use zerv::version::zerv::{ZervSchema, ZervVars};
    use zerv::version::{Component, Zerv};
    use zerv::version::zerv::Var;
    let schema = ZervSchema::new_with_precedence(vec![Component::Var(Var::Major)], vec![], vec![], Default::default()).unwrap();
    let vars = ZervVars { major: Some(1), minor: Some(2), patch: Some(3), bumped_timestamp: bumped, last_timestamp: last, dirty: Some(false), ..Default::default() };
    Zerv::new(schema, vars).unwrap().to_string()
}

fn check_calver(c: &CalverCase, cx: &mut Cx) -> Res {
    let preset = CALVER[c.preset % CALVER.len()];
    let fmt = if c.pep440 { "pep440" } else { "semver" };
    let (run, effective) = match c.mode {
        0 => (
            cli::version(&cli::sv(&["--source", "none", "--tag-version", "1.2.3", "--bumped-timestamp", &c.ts.to_string(), "--schema", preset, "--output-format", fmt]), None),
            c.ts,
        ),
        1 => (cli::version(&cli::sv(&["--source", "stdin", "--schema", preset, "--output-format", fmt]), Some(&stdin_object(None, Some(c.ts)))), c.ts),
        2 => (cli::version(&cli::sv(&["--source", "stdin", "--schema", preset, "--output-format", fmt]), Some(&stdin_object(Some(c.ts), Some(c.other_ts)))), c.ts),
        3 => (cli::version(&cli::sv(&["--source", "stdin", "--tag-version", "4.5.6", "--schema", preset, "--output-format", fmt]), Some(&stdin_object(None, Some(c.ts)))), c.ts),
        4 => (cli::version(&cli::sv(&["--source", "stdin", "--no-bump-context", "--schema", preset, "--output-format", fmt]), Some(&stdin_object(Some(c.ts), Some(c.other_ts)))), c.other_ts),
        _ => (
            cli::version(&cli::sv(&["--source", "stdin", "--no-bump-context", "--tag-version", "4.5.6-rc.1", "--schema", preset, "--output-format", fmt]), Some(&stdin_object(Some(c.ts), Some(c.other_ts)))),
            c.other_ts,
        ),
    };
    let out = match &run {
        cli::Run::Ok(s) => s.clone(),
        other => return fail(format!("calver run failed for {c:?}: {}", other.describe())),
    };
    let civ = cal::civil(effective);
    cx.nt_if(boundary(effective) || c.mode > 0);
    cx.note(|| format!("{preset} {fmt} mode {} ts {} -> {out}", c.mode, c.ts));
    let nums = leading_numbers(&out);
    ensure!(nums.len() >= 3, "calver output {out:?} has fewer than three leading numbers");
    let want = [civ.year.to_string(), civ.month.to_string(), civ.day.to_string()];
    ensure!(nums[0] == want[0] && nums[1] == want[1] && nums[2] == want[2], "calver output {out:?} for timestamp {effective} should start with {}.{}.{} (UTC date)", want[0], want[1], want[2]);
    Ok(())
}


/// the git source: the date printed is the HEAD commit's (UTC), also when a dirty work tree is
/// switched off with --clean / --no-dirty after detection, and the tag's once --no-bump-context
/// has dropped the commit time
#[derive(Debug, Clone, Hash, Serialize, Deserialize)]
struct GitCalCase {
    before: Vec<i32>, // commits before the tag (time skews)
    after: Vec<i32>,  // commits after the tag
    dirt: u8,         // 0 clean, 1 modified, 2 untracked, 3 staged
    flag: u8,         // 0 --clean, 1 --no-dirty, 2 --no-bump-context, 3 none (clean trees only)
    preset: usize,
    pep440: bool,
}
fn check_git_calver(c: &GitCalCase, cx: &mut Cx) -> Res {
    use crate::gitlab::{Op, Repo};
    let mut repo = match Repo::new() {
        Ok(r) => r,
        Err(e) => {
            infra(format!("cannot create repository: {e}"));
            return Ok(());
        }
    };
    let mut ops: Vec<Op> = c.before.iter().map(|s| Op::Commit { time_skew: *s as i64 }).collect();
    ops.push(Op::Tag { name: 1, annotated: c.preset % 2 == 0, at: None });
    ops.extend(c.after.iter().map(|s| Op::Commit { time_skew: *s as i64 }));
    match c.dirt {
        1 => ops.push(Op::DirtyModify),
        2 => ops.push(Op::DirtyUntracked),
        3 => ops.push(Op::DirtyStage),
        _ => {}
    }
    for op in &ops {
        if let Err(e) = repo.apply(op) {
            infra(format!("git operation failed in the harness: {e}"));
            return Ok(());
        }
    }
    let m = &repo.model;
    let head = m.head_commit();
    let tagged = m.tags.first().map(|t| t.commit).unwrap_or(0);
    let flag = if c.dirt != 0 && c.flag == 3 { 0 } else { c.flag };
    let (extra, effective): (&[&str], u64) = match flag {
        0 => (&["--clean"], m.commits[head].time),
        1 => (&["--no-dirty"], m.commits[head].time),
        2 => (&["--no-bump-context"], m.commits[tagged].time),
        _ => (&[], m.commits[head].time),
    };
    let preset = CALVER[c.preset % CALVER.len()];
    let fmt = if c.pep440 { "pep440" } else { "semver" };
    let mut args = cli::sv(&["version", "-C", &repo.path(), "--schema", preset, "--output-format", fmt]);
    args.extend(extra.iter().map(|s| s.to_string()));
    let o = crate::proc::run(&crate::proc::Spec { args: args.clone(), cwd: Some("/".into()), ..Default::default() });
    if o.timed_out {
        infra("zerv timed out");
        return Ok(());
    }
    ensure!(o.code == Some(0), "{args:?} failed: {}", o.err_str());
    let out = o.out_str().trim_end().to_string();
    let civ = cal::civil(effective);
    cx.nt_if(c.dirt != 0 || flag == 2 || !c.after.is_empty());
    cx.label(["--clean", "--no-dirty", "--no-bump-context", "plain"][flag as usize]);
    cx.label_if(c.dirt != 0, "really-dirty-tree");
    cx.note(|| format!("{preset} {fmt} {extra:?} dirt {} -> {out}", c.dirt));
    let nums = leading_numbers(&out);
    let want = [civ.year.to_string(), civ.month.to_string(), civ.day.to_string()];
    ensure!(
        nums.len() >= 3 && nums[0] == want[0] && nums[1] == want[1] && nums[2] == want[2],
        "{args:?} prints {out:?}; the {} time {effective} is {}.{}.{} (UTC) (history: {})",
        if flag == 2 { "tag commit's" } else { "HEAD commit's" },
        want[0], want[1], want[2],
        repo.log.join("; ")
    );
    Ok(())
}

#[derive(Debug, Clone, Hash, Serialize, Deserialize)]
struct SchemaTsCase {
    ts: u64,
    pattern: usize,
    section: u8, // 0 core 1 extra_core 2 build
    pep440: bool,
}
fn check_schema_ts(c: &SchemaTsCase, cx: &mut Cx) -> Res {
    let p = cal::PATTERNS[c.pattern % 16];
    let civ = cal::civil(c.ts);
    let want = cal::pattern_value(p, &civ).unwrap();
    let canon = { let t = want.trim_start_matches('0'); if t.is_empty() { "0".to_string() } else { t.to_string() } };
    // metamorphic oracle: a ts("p") component renders exactly like the literal uint(<UTC field value>)
    // in the same position (leading zeros cannot survive in a SemVer / PEP 440 number)
    let ron = |comp: &str| match c.section {
        0 => format!("(core:[var(Major), {comp}], extra_core:[], build:[])"),
        1 => format!("(core:[var(Major)], extra_core:[{comp}], build:[])"),
        _ => format!("(core:[var(Major)], extra_core:[], build:[{comp}])"),
    };
    let fmt = if c.pep440 { "pep440" } else { "semver" };
    let run = |r: &str| cli::version(&cli::sv(&["--source", "none", "--tag-version", "7.0.0", "--bumped-timestamp", &c.ts.to_string(), "--schema-ron", r, "--output-format", fmt]), None);
    let with_ts = run(&ron(&format!("var(ts(\"{p}\"))")));
    let with_lit = run(&ron(&format!("uint({canon})")));
    let without = run(&ron("str(\"\")"));
    cx.nt_if(boundary(c.ts));
    cx.note(|| format!("{} @ {} -> {}", ron(&format!("var(ts(\"{p}\"))")), c.ts, with_ts.describe()));
    let out = match &with_ts {
        cli::Run::Ok(s) => s.clone(),
        other => return fail(format!("documented pattern {p:?} in a schema was not accepted: {}", other.describe())),
    };
    let (Some(lit), Some(none)) = (with_lit.ok(), without.ok()) else {
        return fail(format!("harness: literal/empty schema failed: {} / {}", with_lit.describe(), without.describe()));
    };
    ensure!(out == lit, "pattern {p:?} at {} rendered {out:?}, but the UTC field is {want:?} (a literal uint({canon}) renders {lit:?})", c.ts);
    // (when the literal itself is invisible, e.g. minute 0 as a core number, there is nothing to see)
    cx.label_if(out != none, "visible-contribution");
    Ok(())
}

fn instants() -> BoxedStrategy<u64> {
    prop_oneof![
        4 => 0u64..(LAST_DAY + 1) * 86400,
        3 => (0u64..=LAST_DAY, prop_oneof![Just(0u64), Just(1), Just(86399), Just(86398), Just(43200), 0u64..86400]).prop_map(|(d, s)| d * 86400 + s),
        // around leap days and year ends
        2 => (1970u64..2200, prop_oneof![Just((2u32, 28u32)), Just((3, 1)), Just((12, 31)), Just((1, 1)), Just((1, 7))], 0u64..86400).prop_map(|(y, (m, d), s)| {
            // days from civil (inverse used only to aim the generator; the oracle is civil())
            let yy = if m <= 2 { y as i64 - 1 } else { y as i64 };
            let era = yy.div_euclid(400);
            let yoe = yy.rem_euclid(400);
            let mp = (m as i64 + 9) % 12;
            let doy = (153 * mp + 2) / 5 + d as i64 - 1;
            let doe = yoe * 365 + yoe / 4 - yoe / 100 + doy;
            ((era * 146097 + doe - 719468) as u64) * 86400 + s
        }),
    ]
    .boxed()
}

pub fn property() -> Property {
    let days = EnumSub::<u64>::new(
        "enum-days",
        "every day 1970-01-01 .. 2199-12-31 (84 006 days) at 00:00:00 and 23:59:59, all 16 patterns each",
        |_tier, shard, n, visit| {
            for d in 0..=LAST_DAY {
                if d as usize % n != shard {
                    continue;
                }
                if !visit(&(d * 86400)) || !visit(&(d * 86400 + 86399)) {
                    return;
                }
            }
        },
        check_patterns,
    );
    let rnd = RandomSub::<u64>::new("rand-instants", (600_000, 8_000_000), |_| instants(), check_patterns);
    let beyond = RandomSub::<u64>::new(
        "beyond-i64",
        (2_000, 40_000),
        |_| prop_oneof![2 => (1u64 << 63)..=u64::MAX, 1 => (0u64..1000).prop_map(|k| (1u64 << 63) + k), 1 => (0u64..100_000).prop_map(|k| u64::MAX - k), 1 => (0u64..(LAST_DAY + 1) * 86400).prop_map(|t| (t as i64).wrapping_neg() as u64)].boxed(),
        check_beyond,
    );
    let calver = RandomSub::<CalverCase>::new(
        "cli-calver",
        (20_000, 400_000),
        |_| (instants(), 0usize..11, any::<bool>(), 0u8..6, instants()).prop_map(|(ts, preset, pep440, mode, other_ts)| CalverCase { ts, preset, pep440, mode, other_ts }).boxed(),
        check_calver,
    );
    let git_calver = RandomSub::<GitCalCase>::new(
        "git-calver",
        (400, 6_000),
        |_| {
            let skews = || proptest::collection::vec(-400_000i32..400_000, 0..3);
            (skews(), skews(), 0u8..4, 0u8..4, 0usize..11, any::<bool>()).prop_map(|(before, after, dirt, flag, preset, pep440)| GitCalCase { before, after, dirt, flag, preset, pep440 }).boxed()
        },
        check_git_calver,
    )
    .shrink_iters(40);
    let schema_ts = EnumSub::<SchemaTsCase>::new(
        "schema-patterns",
        "16 patterns x 3 schema sections x 2 formats x 40 (quick) / 1000 (thorough) fixed instants spread over 1970..2199",
        |tier, shard, n, visit| {
            let k = tier.pick(40u64, 1000);
            let mut idx = 0usize;
            for i in 0..k {
                let day = i * LAST_DAY / k;
                let ts = day * 86400 + [0u64, 86399, 43200 + i * 61 % 3600, 3599][(i % 4) as usize];
                for pattern in 0..16 {
                    for section in 0..3u8 {
                        for pep440 in [false, true] {
                            if idx % n == shard && !visit(&SchemaTsCase { ts, pattern, section, pep440 }) {
                                return;
                            }
                            idx += 1;
                        }
                    }
                }
            }
        },
        check_schema_ts,
    );
    Property {
        id: "C17",
        rule: "cases = Unix timestamps (every day of 1970..2199 at its first and last second, random instants biased to day/leap/year/week boundaries) x the 16 documented patterns; CalVer presets on sources none (--bumped-timestamp) and stdin (last_timestamp only / both); each pattern by name inside --schema-ron in each section. Oracle: Hinnant civil-from-days calendar, independent of chrono. Non-trivial = instant within 1 s of a day boundary or in Feb/Mar of a leap year (CLI: also every stdin-sourced case); distinct = distinct cases. git-calver: real repositories (commits with skewed dates before and after a tag, clean or really dirty work tree) with a CalVer preset and --clean / --no-dirty / --no-bump-context / no flag: the date printed is the HEAD commit's, or the tagged commit's once the commit time is dropped.",
        assumptions: vec![
            "timestamps 0 .. 2199-12-31T23:59:59Z (the quantifier's range)",
            "calver presets: the first three numbers of the output are year.month.day; leading zeros cannot appear in a SemVer/PEP 440 number so values are compared numerically in schema-patterns",
        ],
        subs: vec![days.boxed(), rnd.boxed(), beyond.boxed(), calver.boxed(), git_calver.boxed(), schema_ts.boxed()],
        known_repro: vec![],
    }
}
