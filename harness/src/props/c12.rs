//! C12 — Zerv RON is a lossless interchange format and invalid objects are refused (DESIGN.md §6 C12).
use crate::cli;
use crate::gens;
use crate::gens::flags;
use crate::gens::zervgen as zg;
use crate::model::*;
use crate::oracle::render as orender;
use crate::proc;
use crate::props::{c01, c04};
use crate::runner::*;
use proptest::prelude::*;
use serde::{Deserialize, Serialize};
use std::str::FromStr;
use zerv::version::Zerv;

const TEMPLATES: [&str; 6] = [
    "<<{{ semver }}|{{ pep440 }}>>",
    "<<{{ major }}.{{ minor }}.{{ patch }}{% if bumped_branch %}+{{ sanitize(value=bumped_branch, preset=\"dotted\") }}{% endif %}>>",
    "<<{{ semver_obj.docker }}|{{ pep440_obj.base_part }}>>",
    "<<{% if distance %}{{ distance }}{% endif %}|{% if dirty %}d{% endif %}|{{ bumped_commit_hash_short | default(value=\"\") }}>>",
    "<<{{ custom | json_encode() }}>>",
    "<<{{ hash(value=semver, length=10) }}>>",
];

fn needs_escapes(z: &MZerv) -> bool {
    let t = |s: &Option<String>| s.as_ref().is_some_and(|s| s.chars().any(|c| matches!(c, '"' | '\\' | '\n' | '\r' | '\t') || !c.is_ascii()));
    t(&z.vars.bumped_branch) || t(&z.vars.bumped_commit_hash) || t(&z.vars.last_branch) || t(&z.vars.last_commit_hash) || z.vars.custom_json.contains('{') && z.vars.custom_json.len() > 2
        || z.schema.all().any(|c| matches!(c, MComp::Str(s) if s.chars().any(|c| matches!(c, '"' | '\\' | '\n') || !c.is_ascii())))
}

/// O1 on one object: parse(print(z)) == z, re-emit identical, schema valid, piping == direct rendering
fn lossless(z: &Zerv, cx: &mut Cx, via_pipe_formats: bool) -> Res {
    let text = z.to_string();
    let back = Zerv::from_str(&text).map_err(|e| Bad::Fail(format!("emitted object does not parse back: {e}\n{text}")))?;
    if back != *z {
        // custom: Null and {} are both "no custom variables"; everything else must be identical
        let same_but_custom = back.schema == z.schema && {
            let mut a = back.vars.clone();
            let mut b = z.vars.clone();
            let empty = |v: &serde_json::Value| v.is_null() || v.as_object().is_some_and(|o| o.is_empty());
            let custom_equiv = a.custom == b.custom || (empty(&a.custom) && empty(&b.custom));
            a.custom = serde_json::Value::Null;
            b.custom = serde_json::Value::Null;
            a == b && custom_equiv
        };
        ensure!(same_but_custom, "object changed by emit -> parse:\n  before: {:?}\n  after : {:?}", z, back);
    }
    let again = back.to_string();
    ensure!(again == text, "re-emitting a parsed object is not byte-identical:\n{text}\n---\n{again}");
    let ms = MSchema::from_zerv(&z.schema);
    if let Err(e) = orender::schema_valid(&ms) {
        return fail(format!("emitted object violates the schema placement rules ({e}): {}", ms.to_ron()));
    }
    if via_pipe_formats {
        for (args, direct) in [
            (vec!["--output-format=semver".to_string()], no_panic(|| zerv::version::SemVer::from(z.clone()).to_string())),
            (vec!["--output-format=pep440".to_string()], no_panic(|| zerv::version::PEP440::from(z.clone()).to_string())),
        ] {
            let direct = direct.map_err(|p| Bad::Fail(format!("direct rendering panicked: {p}")))?;
            if z.vars.dirty == Some(true) && ms.all().any(|c| matches!(c, MComp::Var(MVar::Ts(_)) | MComp::Var(MVar::BumpedTimestamp))) {
                continue; // dirty: the piped run replaces bumped_timestamp by the wall clock (documented)
            }
            let mut a = vec!["--source=stdin".to_string()];
            a.extend(args);
            match cli::version(&a, Some(&text)) {
                cli::Run::Ok(p) => {
                    // the pipe normalises epoch 0 away
                    if z.vars.epoch == Some(0) {
                        continue;
                    }
                    ensure!(p == direct, "piping the object into `version --source stdin {}` prints {p:?}, direct rendering is {direct:?}", a[1])
                }
                other => return fail(format!("piping an emitted object fails: {}\n{text}", other.describe())),
            }
        }
    }
    cx.note(|| text.chars().take(200).collect());
    Ok(())
}

#[derive(Debug, Clone, Hash, Serialize, Deserialize)]
pub enum Emit {
    Direct(MZerv),
    Version(c01::Case),
    Flow(c04::Case),
}

fn check_emit(e: &Emit, cx: &mut Cx) -> Res {
    match e {
        Emit::Direct(m) => {
            let z = m.to_zerv().map_err(|e| Bad::Fail(format!("harness bug: {e}")))?;
            cx.nt_if(needs_escapes(m) || !m.schema.precedence.is_empty());
            cx.label("direct");
            cx.label_if(!m.schema.precedence.is_empty(), "custom-precedence-order");
            lossless(&z, cx, true)?;
            // interchange: passing the object through `version --source stdin --output-format zerv`
            // without any override or bump gives the same object back (clock-free objects;
            // epoch 0 is normalised away by design)
            if m.vars.dirty != Some(true) && m.vars.epoch != Some(0) {
                let text = z.to_string();
                match cli::version(&cli::sv(&["--source", "stdin", "--output-format", "zerv"]), Some(&text)) {
                    cli::Run::Ok(out) => ensure!(out == text, "piping an object through `version --source stdin --output-format zerv` changes it:\n--- in\n{text}\n--- out\n{out}"),
                    other => return fail(format!("piping an emitted object fails: {}", other.describe())),
                }
            }
            Ok(())
        }
        Emit::Version(c) => {
            let mut a = c01::argv(c);
            a.retain(|x| !x.starts_with("--output-format") && !x.starts_with("--output-prefix"));
            a.push("--output-format=zerv".into());
            let stdin = c.stdin.as_ref().and_then(|z| z.to_zerv().ok()).map(|z| z.to_string());
            cx.label("emitted-by-version");
            let out = match cli::version(&a, stdin.as_deref()) {
                cli::Run::Ok(o) => o,
                cli::Run::Panic(p) => return fail(format!("version panicked: {p}")),
                _ => return Ok(()),
            };
            let z = Zerv::from_str(&out).map_err(|e| Bad::Fail(format!("`version --output-format zerv` printed something that does not parse: {e}\n{out}")))?;
            ensure!(z.to_string() == out, "emitted RON is not what the parsed object re-emits");
            cx.nt_if(needs_escapes(&MZerv::from_zerv(&z)));
            // chained rendering: version(flags) | version --source stdin -f F  ==  version(flags) -f F
            for f in ["semver", "pep440"] {
                let mut d = a.clone();
                d.retain(|x| !x.starts_with("--output-format"));
                d.push(format!("--output-format={f}"));
                let direct = cli::version(&d, stdin.as_deref());
                let piped = cli::version(&cli::sv(&["--source", "stdin", "--output-format", f]), Some(&out));
                let clocked = z.vars.dirty == Some(true);
                if let (cli::Run::Ok(x), cli::Run::Ok(y), false) = (&direct, &piped, clocked) {
                    ensure!(x == y, "direct `{f}` rendering {x:?} differs from the piped one {y:?} for {a:?}");
                } else if !clocked {
                    ensure!(direct.is_ok() == piped.is_ok(), "direct rendering {} but piped rendering {} for {a:?}", direct.describe(), piped.describe());
                }
            }
            // a dirty object carries the wall clock of the run that emitted it, and of every later
            // stage: everything else survives the pipe
            if z.vars.dirty == Some(true) {
                let now = || std::time::SystemTime::now().duration_since(std::time::UNIX_EPOCH).map(|d| d.as_secs()).unwrap_or(0);
                let t1 = now();
                ensure!(z.vars.bumped_timestamp.is_some_and(|t| t + 30 >= t1 && t <= t1), "dirty object emitted by `version {a:?}` has bumped_timestamp {:?}, not the wall clock (~{t1})", z.vars.bumped_timestamp);
                if let cli::Run::Ok(again) = cli::version(&cli::sv(&["--source", "stdin", "--output-format", "zerv"]), Some(&out)) {
                    let z2 = Zerv::from_str(&again).map_err(|e| Bad::Fail(format!("piped object does not parse: {e}")))?;
                    let t2 = now();
                    ensure!(z2.vars.bumped_timestamp.is_some_and(|t| t >= t1 && t <= t2), "dirty object after the pipe has bumped_timestamp {:?}, not the wall clock [{t1},{t2}]", z2.vars.bumped_timestamp);
                    let (mut x, mut y) = (z.clone(), z2.clone());
                    x.vars.bumped_timestamp = None;
                    y.vars.bumped_timestamp = None;
                    ensure!(x == y, "a dirty object emitted by `version {a:?}` changes in the pipe beyond its wall-clock timestamp:\n--- emitted\n{out}\n--- after the pipe\n{again}");
                }
            }
            // an emitted object is already normalised: passing it through the flag-less pipe
            // must give it back unchanged (clock-free objects)
            if z.vars.dirty != Some(true) {
                match cli::version(&cli::sv(&["--source", "stdin", "--output-format", "zerv"]), Some(&out)) {
                    cli::Run::Ok(again) => ensure!(again == out, "an object emitted by `version {a:?}` is changed by `version --source stdin --output-format zerv`:\n--- emitted\n{out}\n--- after the pipe\n{again}"),
                    other => return fail(format!("piping an emitted object fails: {}", other.describe())),
                }
            }
            lossless(&z, cx, false)
        }
        Emit::Flow(c) => {
            let (a, stdin) = c04::build_argv(c);
            cx.label("emitted-by-flow");
            let out = match cli::flow(&a, stdin.as_deref()) {
                cli::Run::Ok(o) => o,
                cli::Run::Panic(p) => return fail(format!("flow panicked: {p}")),
                _ => return Ok(()),
            };
            let z = Zerv::from_str(&out).map_err(|e| Bad::Fail(format!("`flow --output-format zerv` printed something that does not parse: {e}\n{out}")))?;
            cx.nt();
            // template rendering through the pipe equals template rendering of the object
            let t = TEMPLATES[(c.hash_len.unwrap_or(0) as usize) % TEMPLATES.len()];
            let direct = no_panic(|| zerv::cli::utils::template::Template::<String>::new(t.to_string()).render(Some(&z)));
            let piped = cli::version(&cli::sv(&["--source", "stdin", "--output-template", t]), Some(&out));
            if z.vars.dirty != Some(true)
                && let (Ok(Ok(Some(d))), cli::Run::Ok(p)) = (&direct, &piped)
            {
                ensure!(d == p, "template {t:?}: direct {d:?} vs piped {p:?}");
            }
            if z.vars.dirty != Some(true) {
                match cli::version(&cli::sv(&["--source", "stdin", "--output-format", "zerv"]), Some(&out)) {
                    cli::Run::Ok(again) => ensure!(again == out, "an object emitted by `flow {a:?}` is changed by `version --source stdin --output-format zerv`:\n--- emitted\n{out}\n--- after the pipe\n{again}"),
                    other => return fail(format!("piping an emitted object fails: {}", other.describe())),
                }
            }
            lossless(&z, cx, false)
        }
    }
}

#[derive(Debug, Clone, Hash, Serialize, Deserialize)]
pub struct BrokenCase {
    pub base: MZerv,
    pub rule: u8,
    pub with_schema_flag: bool,
}
/// break exactly one placement rule of a valid schema
fn break_rule(z: &MZerv, rule: u8) -> MSchema {
    let mut s = z.schema.clone();
    match rule % 8 {
        0 => s.build.push(MComp::Var(MVar::Major)),
        1 => {
            s.core.retain(|c| !matches!(c, MComp::Var(v) if v.is_primary()));
            s.core.push(MComp::Var(MVar::Patch));
            s.core.push(MComp::Var(MVar::Major));
        }
        2 => s.core.push(MComp::Var(MVar::Epoch)),
        3 => {
            s.extra_core.retain(|c| !matches!(c, MComp::Var(MVar::Post)));
            s.extra_core.push(MComp::Var(MVar::Post));
            s.extra_core.insert(0, MComp::Var(MVar::Post));
        }
        4 => s.build.push(MComp::Var(MVar::Ts("nope".into()))),
        5 => {
            s.core.clear();
            s.extra_core.clear();
            s.build.clear();
        }
        6 => s.extra_core.push(MComp::Var(MVar::Minor)),
        _ => {
            s.core.retain(|c| !matches!(c, MComp::Var(MVar::Minor)));
            s.core.push(MComp::Var(MVar::Minor));
            s.core.push(MComp::Var(MVar::Minor));
        }
    }
    s
}
fn raw_ron(schema: &MSchema, vars: &MVars) -> String {
    // written by hand (Zerv::new would refuse the broken schema)
    let o = |v: &Option<u64>| v.map(|n| format!("Some({n})")).unwrap_or_else(|| "None".into());
    format!(
        "(schema: {}, vars: (major: {}, minor: {}, patch: {}, epoch: {}, pre_release: None, post: {}, dev: {}, distance: {}, dirty: None, bumped_branch: None, bumped_commit_hash: None, bumped_timestamp: {}, last_branch: None, last_commit_hash: None, last_timestamp: None, last_tag_version: None, custom: {{}}))",
        schema.to_ron(), o(&vars.major), o(&vars.minor), o(&vars.patch), o(&vars.epoch), o(&vars.post), o(&vars.dev), o(&vars.distance), o(&vars.bumped_timestamp)
    )
}
fn check_broken(c: &BrokenCase, cx: &mut Cx) -> Res {
    let bad = break_rule(&c.base, c.rule);
    if orender::schema_valid(&bad).is_ok() {
        return Ok(()); // the edit happened to keep the schema valid
    }
    cx.nt();
    cx.label(["major-in-build", "patch-before-major", "epoch-in-core", "duplicate-post", "bad-ts-pattern", "no-component", "minor-in-extra-core", "duplicate-minor"][(c.rule % 8) as usize]);
    let text = raw_ron(&bad, &c.base.vars);
    // sanity: the same document with the valid schema is accepted
    let good = raw_ron(&c.base.schema, &c.base.vars);
    match cli::version(&cli::sv(&["--source", "stdin"]), Some(&good)) {
        cli::Run::Ok(_) => {}
        other => return fail(format!("harness: the unbroken document is rejected: {}\n{good}", other.describe())),
    }
    for f in ["semver", "pep440", "zerv"] {
        let r = cli::version(&cli::sv(&["--source", "stdin", "--output-format", f]), Some(&text));
        cx.note(|| format!("{} -> {}", bad.to_ron(), r.describe().chars().take(100).collect::<String>()));
        match r {
            cli::Run::Ok(o) => return fail(format!("object whose schema violates the placement rules was rendered ({f}): {o:?}\n{text}")),
            cli::Run::Panic(p) => return fail(format!("panic on a rule-breaking object: {p}")),
            _ => {}
        }
        let r = cli::flow(&cli::sv(&["--source", "stdin", "--output-format", f]), Some(&text));
        match r {
            cli::Run::Ok(o) => return fail(format!("flow rendered an object whose schema violates the placement rules ({f}): {o:?}\n{text}")),
            cli::Run::Panic(p) => return fail(format!("panic on a rule-breaking object: {p}")),
            _ => {}
        }
    }
    // with --schema the stdin schema is not in effect: the run may succeed
    if c.with_schema_flag
        && let cli::Run::Panic(p) = cli::version(&cli::sv(&["--source", "stdin", "--schema", "standard-base"]), Some(&text))
    {
        return fail(format!("panic: {p}"));
    }
    Ok(())
}

/// A complete, valid document followed by text that is neither white space nor a RON comment is not
/// valid RON (two concatenated documents, a stray bracket, a log line, a version string): refused.
const TAILS: [&str; 14] = [")", ",", "x", "\n1.2.3\n", "\n2024-01-01T00:00:00Z  INFO done\n", "(", "]", "}", "\"", "()", "\n\n0", " None", "\u{feff}x", "\n/ not a comment"];
fn check_trailing(c: &(crate::model::MZerv, usize, bool), cx: &mut Cx) -> Res {
    let (base, tail, twice) = c;
    cx.nt();
    let good = raw_ron(&base.schema, &base.vars);
    match cli::version(&cli::sv(&["--source", "stdin"]), Some(&good)) {
        cli::Run::Ok(_) => {}
        other => return fail(format!("harness: the plain document is rejected: {}\n{good}", other.describe())),
    }
    // white space and comments after the document are fine
    for ok_tail in ["\n", "  \n\t", "\n// trailing comment\n", " /* block */ "] {
        let doc = format!("{good}{ok_tail}");
        if let cli::Run::Panic(p) = cli::version(&cli::sv(&["--source", "stdin"]), Some(&doc)) {
            return fail(format!("panic on a document followed by {ok_tail:?}: {p}"));
        }
    }
    let text = if *twice { format!("{good}\n{good}") } else { format!("{good}{}", TAILS[tail % TAILS.len()]) };
    cx.label(if *twice { "two-documents" } else { "stray-tail" });
    for f in ["semver", "pep440", "zerv"] {
        for flow in [false, true] {
            let r = if flow { cli::flow(&cli::sv(&["--source", "stdin", "--output-format", f]), Some(&text)) } else { cli::version(&cli::sv(&["--source", "stdin", "--output-format", f]), Some(&text)) };
            match r {
                cli::Run::Ok(o) => return fail(format!("{} rendered ({f}) a stdin input that is a complete document followed by {:?} - not valid RON: {o:?}", if flow { "flow" } else { "version" }, if *twice { "a second document" } else { TAILS[tail % TAILS.len()] })),
                cli::Run::Panic(p) => return fail(format!("panic on a document with trailing content: {p}")),
                _ => {}
            }
        }
    }
    Ok(())
}

/// arbitrary documents: error, or an output that itself is lossless; never a panic
fn check_garbage(doc: &String, cx: &mut Cx) -> Res {
    let r = cli::version(&cli::sv(&["--source", "stdin", "--output-format", "zerv"]), Some(doc));
    cx.label(match &r {
        cli::Run::Ok(_) => "accepted",
        _ => "rejected",
    });
    match r {
        cli::Run::Panic(p) => fail(format!("panic on stdin document {doc:?}: {p}")),
        cli::Run::Ok(out) => {
            cx.nt();
            let z = Zerv::from_str(&out).map_err(|e| Bad::Fail(format!("accepted a document but emitted something that does not parse: {e}")))?;
            lossless(&z, cx, false)
        }
        _ => {
            // is it invalid RON / invalid object at all?  If zerv's own parser accepts it and the
            // schema is valid, rejecting it needs a reason (e.g. whitespace-only input)
            cx.nt_if(doc.trim().starts_with('('));
            Ok(())
        }
    }
}

pub fn property() -> Property {
    let emit = RandomSub::<Emit>::new(
        "roundtrip",
        (120_000, 2_000_000),
        |_| {
            prop_oneof![
                3 => zg::mzerv_p(true).prop_map(Emit::Direct),
                2 => c01::case_strategy().prop_map(Emit::Version),
                1 => c04::case_strategy().prop_map(Emit::Flow),
            ]
            .boxed()
        },
        check_emit,
    )
    .floor(0.2);
    let broken = RandomSub::<BrokenCase>::new("one-rule-broken", (6_000, 120_000), |_| (zg::mzerv(false), 0u8..8, any::<bool>()).prop_map(|(base, rule, with_schema_flag)| BrokenCase { base, rule, with_schema_flag }).boxed(), check_broken).floor(0.5);
    let garbage = RandomSub::<String>::new(
        "malformed-documents",
        (20_000, 500_000),
        |_| gens::argv::stdin_content().prop_map(|s| s.unwrap_or_default()).boxed(),
        check_garbage,
    );
    let trailing = RandomSub::<(crate::model::MZerv, usize, bool)>::new("trailing-content", (3_000, 60_000), |_| (zg::mzerv(false), 0usize..TAILS.len(), prop::bool::weighted(0.15)).boxed(), check_trailing);
    // L2: a real pipe between two processes
    let pipe = RandomSub::<c01::Case>::new(
        "cli-pipe",
        (250, 4_000),
        |_| c01::case_strategy().prop_filter("argv-safe", |c| c01::argv(c).iter().all(|a| proc::argv_safe(a))).boxed(),
        |c, cx| {
            let mut a = vec!["version".to_string()];
            a.extend(c01::argv(c));
            a.retain(|x| !x.starts_with("--output-format") && !x.starts_with("--output-prefix"));
            let stdin = c.stdin.as_ref().and_then(|z| z.to_zerv().ok()).map(|z| z.to_string().into_bytes());
            let mut emit = a.clone();
            emit.push("--output-format=zerv".into());
            let o1 = proc::run(&proc::Spec { args: emit, stdin: stdin.clone(), ..Default::default() });
            if o1.code != Some(0) {
                return Ok(());
            }
            let f = if c.pep440 { "pep440" } else { "semver" };
            let o2 = proc::run(&proc::Spec { args: cli::sv(&["version", "--source", "stdin", "--output-format", f]), stdin: Some(o1.stdout.clone()), ..Default::default() });
            let mut direct = a.clone();
            direct.push(format!("--output-format={f}"));
            let o3 = proc::run(&proc::Spec { args: direct, stdin, ..Default::default() });
            cx.nt();
            let clocked = o1.out_str().contains("dirty: Some(true)");
            cx.note(|| format!("{a:?} | version --source stdin -> {:?}", o2.out_str()));
            ensure!(o2.code == o3.code, "piped rendering exit {:?} vs direct {:?} for {a:?}; stderr {}", o2.code, o3.code, o2.err_str());
            if !clocked {
                ensure!(o2.stdout == o3.stdout, "piped rendering {:?} differs from direct rendering {:?} for {a:?}", o2.out_str(), o3.out_str());
            }
            Ok(())
        },
    )
    .shrink_iters(100);
    // L2: documents well beyond one pipe / read buffer, with multi-byte characters at every offset
    let big = RandomSub::<(u32, u8, u32, u8)>::new(
        "big-documents",
        (256, 4_000),
        |_| (0u32..9000, 0u8..3, 1500u32..6000, 0u8..3).boxed(),
        |(filler, ch, run, place), cx| {
            let c = ["é", "中", "😀"][*ch as usize % 3];
            let text = format!("{}{}", "x".repeat(*filler as usize), c.repeat(*run as usize));
            let mut args = cli::sv(&["version", "--source", "none", "--tag-version", "1.2.3", "--output-format", "zerv"]);
            match place % 3 {
                0 => args.push(format!("--custom={}", serde_json::json!({"note": text, "n": {"m": [1, 2]}}))),
                1 => args.push(format!("--bumped-branch={text}")),
                _ => args.push(format!("--schema-ron=(core:[var(Major),var(Minor),var(Patch)],extra_core:[],build:[str({})])", serde_json::Value::String(text.clone()))),
            }
            let o1 = proc::run(&proc::Spec { args: args.clone(), cwd: Some("/".into()), ..Default::default() });
            ensure!(o1.code == Some(0), "emitting a large object failed (exit {:?}): {}", o1.code, o1.err_str().chars().take(300).collect::<String>());
            let o2 = proc::run(&proc::Spec { args: cli::sv(&["version", "--source", "stdin", "--output-format", "zerv"]), stdin: Some(o1.stdout.clone()), cwd: Some("/".into()), ..Default::default() });
            cx.nt_if(o1.stdout.len() > 8192);
            cx.note(|| format!("document of {} bytes ({} x {c:?} after {} ASCII bytes, place {}) -> exit {:?}", o1.stdout.len(), run, filler, place % 3, o2.code));
            ensure!(o2.code == Some(0), "an emitted object of {} bytes is refused on stdin (exit {:?}): {}", o1.stdout.len(), o2.code, o2.err_str().chars().take(300).collect::<String>());
            ensure!(o2.stdout == o1.stdout, "an emitted object of {} bytes changes when piped through `version --source stdin --output-format zerv`", o1.stdout.len());
            for f in ["semver", "pep440"] {
                let mut d = args.clone();
                d.retain(|x| x != "zerv" && x != "--output-format");
                d.push(format!("--output-format={f}"));
                let direct = proc::run(&proc::Spec { args: d, cwd: Some("/".into()), ..Default::default() });
                let piped = proc::run(&proc::Spec { args: cli::sv(&["version", "--source", "stdin", "--output-format", f]), stdin: Some(o1.stdout.clone()), cwd: Some("/".into()), ..Default::default() });
                ensure!(direct.code == piped.code && direct.stdout == piped.stdout, "{f}: direct rendering (exit {:?}) {:?} differs from the piped one (exit {:?}) {:?}", direct.code, direct.out_str().chars().take(80).collect::<String>(), piped.code, piped.out_str().chars().take(80).collect::<String>());
            }
            Ok(())
        },
    )
    .shrink_iters(30)
    .floor(0.5);
    let _ = flags::to_argv;
    Property {
        id: "C12",
        rule: "cases = Zerv objects (a) built directly from generated schemas x vars (quotes, backslashes, newlines, Unicode, nested custom JSON with floats/nulls/arrays, u64 edges, presets and custom schemas), (b) emitted by `version` / `flow` runs with random flags; documents with exactly one schema placement rule broken (8 rules); truncated, mutated and garbage documents; complete valid documents followed by a stray tail (bracket, word, version string, log line, a second document). Oracle: parse(print(z)) == z and re-emit byte-identical (round-trip); every emitted object passes the independent placement validator; rendering through `--source stdin` (in-process and through a real process pipe) equals direct rendering for semver, pep440 and templates; rule-breaking documents are rejected by version and flow in every output format; arbitrary documents give an error or a lossless object, never a panic; big-documents: objects of 8-40 KiB carrying a long run of 2-, 3- or 4-byte characters at a random byte offset go through two real processes and a pipe unchanged. Non-trivial = object has a string needing escapes / non-ASCII / nested custom JSON, or is emitted by flow, or is a one-rule-broken document, or an accepted/parenthesised document; distinct = distinct cases.",
        assumptions: vec![
            "custom: Null (source none) and {} (stdin default) are both 'no custom variables'",
            "dirty objects are not compared through the pipe when they print a timestamp (the piped run takes the wall clock)",
            "epoch Some(0) is normalised away by the pipe",
        ],
        subs: vec![emit.boxed(), broken.boxed(), trailing.boxed(), garbage.boxed(), pipe.boxed(), big.boxed()],
        known_repro: vec![],
    }
}
