//! C13 — zerv fails cleanly: it never panics and never prints a result on failure (DESIGN.md §6 C13).
use crate::cli;
use crate::gens;
use crate::gens::argv as ga;
use crate::gitlab::{Op, Repo};
use crate::proc;
use crate::props::c02;
use crate::runner::*;
use proptest::prelude::*;
use serde::{Deserialize, Serialize};

const SUBS: [&str; 4] = ["version", "flow", "render", "check"];

#[derive(Debug, Clone, Hash, Serialize, Deserialize)]
pub struct ArgvCase {
    pub sub: usize,
    pub flags: Vec<(String, Option<String>)>,
    pub positional: Option<String>,
    pub stdin: Option<String>,
}
pub fn argv_of(c: &ArgvCase) -> Vec<String> {
    let mut a = ga::to_argv(&c.flags);
    if let Some(p) = &c.positional {
        a.push("--".into());
        a.push(p.clone());
    }
    a
}
fn run_l1(c: &ArgvCase) -> cli::Run {
    let a = argv_of(c);
    match SUBS[c.sub % 4] {
        "version" => cli::version(&a, c.stdin.as_deref()),
        "flow" => cli::flow(&a, c.stdin.as_deref()),
        "render" => cli::render(&a),
        _ => cli::check(&a),
    }
}

/// "valid but for one twist": a whole valid `version` / `flow` command line (the generators of
/// C01 and C04) with one to three adversarial flags added, so that hostile values reach the late
/// pipeline stages instead of dying in argument validation
fn hybrid_case() -> BoxedStrategy<ArgvCase> {
    let split = |argv: Vec<String>| -> Vec<(String, Option<String>)> {
        argv.into_iter()
            .filter_map(|a| {
                let a = a.strip_prefix("--")?.to_string();
                Some(match a.split_once('=') {
                    Some((n, v)) => (n.to_string(), Some(v.to_string())),
                    None => (a, None),
                })
            })
            .collect()
    };
    prop_oneof![
        3 => (crate::props::c01::case_strategy(), ga::adversarial_flags("version"), any::<bool>()).prop_map(move |(c, adv, front)| {
            let stdin = c.stdin.as_ref().and_then(|z| z.to_zerv().ok()).map(|z| z.to_string());
            let mut flags = split(crate::props::c01::argv(&c));
            let adv: Vec<_> = adv.into_iter().take(3).collect();
            if front { flags.splice(0..0, adv); } else { flags.extend(adv); }
            ArgvCase { sub: 0, flags, positional: None, stdin }
        }),
        2 => (crate::props::c04::case_strategy(), ga::adversarial_flags("flow")).prop_map(move |(c, adv)| {
            let (argv, stdin) = crate::props::c04::build_argv(&c);
            let mut flags = split(argv);
            flags.extend(adv.into_iter().take(2));
            ArgvCase { sub: 1, flags, positional: None, stdin }
        }),
    ]
    .boxed()
}

pub fn argv_case() -> BoxedStrategy<ArgvCase> {
    prop_oneof![3 => plain_argv_case(), 2 => hybrid_case()].boxed()
}
fn plain_argv_case() -> BoxedStrategy<ArgvCase> {
    let positional = prop_oneof![
        3 => crate::props::c08::mutate(crate::props::c08::valid_semver()),
        3 => crate::props::c09::mutate(crate::props::c09::spelled()),
        2 => gens::text::nasty(),
        1 => gens::pick(&["1.0.0-post.post.1.post", "1.0.0-dev.dev.dev", "0.0.0-epoch.Post.epoch", "1.0.0-alpha.alpha.1.alpha", "1.0.0-rc.rc.rc.1", "1.0.0-epoch.1.epoch.2", "1.0.0-99999999999999999999", "4294967296.0.0", "1.0.0-alpha.4294967296", "1!2!3", "1.0+ſ"]).prop_map(String::from),
    ];
    (0usize..4).prop_flat_map(move |sub| {
        let name = SUBS[sub];
        let pos = if sub >= 2 { positional.clone().prop_map(Some).boxed() } else { Just(None).boxed() };
        (ga::adversarial_flags(name), pos, if sub < 2 { ga::stdin_content() } else { Just(None).boxed() }).prop_map(move |(flags, positional, stdin)| ArgvCase { sub, flags, positional, stdin })
    })
    .boxed()
}

fn check_l1(c: &ArgvCase, cx: &mut Cx) -> Res {
    let r = run_l1(c);
    cx.nt_if(!matches!(r, cli::Run::Usage(_)));
    cx.label(SUBS[c.sub % 4]);
    cx.label(match &r {
        cli::Run::Ok(_) => "ok",
        cli::Run::Usage(_) => "usage-error",
        cli::Run::Err(_) => "error",
        cli::Run::Panic(_) => "panic",
    });
    cx.note(|| format!("{} {:?} -> {}", SUBS[c.sub % 4], argv_of(c), r.describe().chars().take(120).collect::<String>()));
    if let cli::Run::Panic(p) = &r {
        return fail(format!("zerv {} panicked on {:?} (stdin {:?}): {p}", SUBS[c.sub % 4], argv_of(c), c.stdin.as_ref().map(|s| s.chars().take(80).collect::<String>())));
    }
    if let cli::Run::Err(e) = &r {
        ensure!(!e.trim().is_empty(), "error without a diagnostic text");
    }
    Ok(())
}

fn mask_clock(s: &str, t0: u64, t1: u64) -> String {
    // wall-clock timestamps (documented for dirty/ahead states) are masked
    let b = s.as_bytes();
    let mut out = String::new();
    let mut i = 0;
    while i < b.len() {
        if b[i].is_ascii_digit() {
            let st = i;
            while i < b.len() && b[i].is_ascii_digit() {
                i += 1;
            }
            let run = &s[st..i];
            if run.len() == 10 && run.parse::<u64>().is_ok_and(|v| v + 5 >= t0 && v <= t1 + 5) {
                out.push_str("<now>");
            } else {
                out.push_str(run);
            }
        } else {
            let ch = s[i..].chars().next().unwrap();
            out.push(ch);
            i += ch.len_utf8();
        }
    }
    out
}
fn now() -> u64 {
    std::time::SystemTime::now().duration_since(std::time::UNIX_EPOCH).unwrap().as_secs()
}

/// the process contract of the statement
pub fn contract(o: &proc::Out, what: &str) -> Res {
    ensure!(!o.timed_out, "{what}: zerv hung");
    ensure!(o.signal.is_none(), "{what}: killed by signal {:?}; stderr: {}", o.signal, o.err_str().chars().take(300).collect::<String>());
    ensure!(matches!(o.code, Some(0) | Some(1)), "{what}: exit status {:?} (a panic is 101); stderr: {}", o.code, o.err_str().chars().take(400).collect::<String>());
    let err = o.err_str();
    ensure!(!err.contains("panicked at") && !err.contains("RUST_BACKTRACE"), "{what}: panic message on stderr: {}", err.chars().take(400).collect::<String>());
    if o.code != Some(0) {
        ensure!(o.stdout.is_empty(), "{what}: failed (exit {:?}) but printed on stdout: {:?}", o.code, o.out_str().chars().take(200).collect::<String>());
        ensure!(!err.trim().is_empty(), "{what}: failed (exit {:?}) without a diagnostic on stderr", o.code);
    } else {
        let out = o.out_str();
        for marker in ["Error:", "ERROR", "WARN", "DEBUG", "TRACE", "panicked"] {
            // log lines have the shape "<timestamp> LEVEL ..." — look for level tokens at line starts after a timestamp
            ensure!(!out.lines().any(|l| l.contains(&format!(" {marker} ")) && l.starts_with("20")), "{what}: a log line reached stdout: {:?}", out.chars().take(200).collect::<String>());
        }
    }
    Ok(())
}

fn check_l2(c: &ArgvCase, cx: &mut Cx) -> Res {
    let mut args = vec![SUBS[c.sub % 4].to_string()];
    args.extend(argv_of(c));
    let spec = proc::Spec { args: args.clone(), stdin: c.stdin.clone().map(|s| s.into_bytes()), cwd: Some("/".into()), ..Default::default() };
    let t0 = now();
    let o = proc::run(&spec);
    if o.timed_out {
        infra(format!("zerv timed out on {args:?}"));
        return Ok(());
    }
    cx.label(if o.code == Some(0) { "exit0" } else { "exit-nonzero" });
    cx.nt_if(!o.err_str().contains("Usage:"));
    cx.note(|| format!("{args:?} -> exit {:?}", o.code));
    contract(&o, &format!("{args:?}"))?;
    // the library call and the binary agree on success/failure
    let l1 = run_l1(c);
    let t1 = now();
    let help = c.flags.iter().any(|f| f.0 == "help" || f.0 == "version");
    if !help {
        ensure!(l1.is_ok() == (o.code == Some(0)), "binary exit {:?} but the library call gives {}", o.code, l1.describe().chars().take(200).collect::<String>());
        if let (Some(s), Some(0)) = (l1.ok(), o.code) {
            ensure!(mask_clock(&format!("{s}\n"), t0, t1) == mask_clock(&o.out_str(), t0, t1), "binary stdout {:?} differs from the library result {s:?}", o.out_str());
        }
    }
    // -v and RUST_LOG=trace: stdout byte-identical, diagnostics stay on stderr
    let mut vargs = vec!["-v".to_string()];
    vargs.extend(args.clone());
    for (spec2, what) in [
        (proc::Spec { args: vargs.clone(), ..spec.clone() }, "-v"),
        (proc::Spec { env: vec![("RUST_LOG".into(), "trace".into())], ..spec.clone() }, "RUST_LOG=trace"),
    ] {
        let o2 = proc::run(&spec2);
        contract(&o2, &format!("{what} {args:?}"))?;
        let t2 = now();
        ensure!(o2.code == o.code, "{what} changes the exit status: {:?} vs {:?} on {args:?}", o2.code, o.code);
        ensure!(mask_clock(&o2.out_str(), t0, t2) == mask_clock(&o.out_str(), t0, t2), "{what} changes stdout: {:?} vs {:?} on {args:?}", o2.out_str(), o.out_str());
    }
    cx.extra_evals = 2;
    Ok(())
}


// ---------------------------------------------------------------------------------------
// deep / long templates (binary only: an overflow must not take the harness down)
#[derive(Debug, Clone, Hash, Serialize, Deserialize)]
pub struct DeepCase {
    /// 0 parentheses, 1 nested {% if %} blocks, 2 `+` chain, 3 `and` chain, 4 `~` chain, 5 filter chain,
    /// 6 nested arrays (not valid Tera), 7 `not` chain (not valid Tera), 8 nested function calls,
    /// 9 nested filter arguments
    pub kind: u8,
    pub depth: u32,
    /// 0 render --output-template, 1 version --output-template, 2 flow --output-template,
    /// 3 version --bump-major <template>
    pub site: u8,
}
/// nested calls: Tera's parser needs about 4x longer per level (F18), so generated cases stay shallow
const CALL_DEPTH_CAP: u32 = 7;
pub fn deep_template(kind: u8, depth: u32) -> (String, Option<String>) {
    let n = depth as usize;
    match kind % 11 {
        0 => (format!("{{{{ {}major{} }}}}", "(".repeat(n), ")".repeat(n)), Some("1".into())),
        1 => (format!("{}x{}", "{% if true %}".repeat(n), "{% endif %}".repeat(n)), Some("x".into())),
        2 => (format!("{{{{ 1{} }}}}", "+1".repeat(n)), Some((n + 1).to_string())),
        3 => (format!("{{{{ true{} }}}}", " and true".repeat(n)), Some("true".into())),
        4 => (format!("{{{{ \"a\"{} | length }}}}", " ~ \"a\"".repeat(n)), Some((n + 1).to_string())),
        5 => (format!("{{{{ major{} }}}}", "|int".repeat(n)), Some("1".into())),
        6 => (format!("{{{{ {}1{} | length }}}}", "[".repeat(n), "]".repeat(n)), None),
        7 => (format!("{{{{ {}true }}}}", "not ".repeat(n)), None),
        10 => ("{% include \"template\" %}".to_string(), None),
        8 => (format!("{{{{ {}\"a\"{} }}}}", "sanitize(value=".repeat(n), ")".repeat(n)), None),
        _ => (format!("{{{{ {}1{} }}}}", "major | default(value=".repeat(n), ")".repeat(n)), Some("1".into())),
    }
}
fn deep_args(c: &DeepCase) -> (Vec<String>, bool) {
    let (t, _) = deep_template(c.kind, c.depth);
    match c.site % 4 {
        0 => (cli::sv(&["render", "1.2.3", "--output-template", &t]), true),
        1 => (cli::sv(&["version", "--source", "none", "--tag-version", "1.2.3", "--output-template", &t]), true),
        2 => (cli::sv(&["flow", "--source", "none", "--tag-version", "1.2.3", "--bumped-branch", "main", "--output-template", &t]), true),
        _ => (cli::sv(&["version", "--source", "none", "--tag-version", "1.2.3", "--bump-major", &t]), false),
    }
}
fn check_deep(c: &DeepCase, cx: &mut Cx) -> Res {
    let (args, prints_template) = deep_args(c);
    let (_, value) = deep_template(c.kind, c.depth);
    let nested_call = matches!(c.kind % 11, 8 | 9);
    let self_include = c.kind % 11 == 10;
    let o = proc::run(&proc::Spec { args: args.clone(), cwd: Some("/".into()), timeout_s: Some(if nested_call && c.depth > CALL_DEPTH_CAP { 10 } else { 120 }), ..Default::default() });
    let what = format!("{} ... [template kind {} depth {} ({} bytes)]", args[..args.len() - 1].join(" "), c.kind % 11, c.depth, args.last().map(|s| s.len()).unwrap_or(0));
    cx.nt_if(c.depth >= 100 || (nested_call && c.depth >= 4));
    cx.label(["parentheses", "if-blocks", "plus-chain", "and-chain", "concat-chain", "filter-chain", "arrays", "not-chain", "nested-calls", "nested-filter-args", "self-include"][(c.kind % 11) as usize]);
    cx.label(if o.timed_out { "timed-out" } else if o.signal.is_some() { "killed-by-signal" } else if o.code == Some(0) { "exit0" } else { "exit-nonzero" });
    cx.note(|| format!("{what} -> exit {:?} signal {:?}", o.code, o.signal));
    if o.timed_out {
        if nested_call && c.depth >= 12 {
            return Err(Bad::Known("F18", format!("{what}: not finished after 10 s (parse time grows about 4x per nesting level)")));
        }
        infra(format!("zerv timed out on {what}"));
        return Ok(());
    }
    if self_include && o.signal.is_some() && o.err_str().contains("overflowed its stack") {
        return Err(Bad::Known("F23", format!("{what}: the template includes itself (it is registered under the name \"template\"): stack overflow, killed by signal {:?}", o.signal)));
    }
    if o.signal.is_some() && o.err_str().contains("overflowed its stack") && c.depth >= 500 && !nested_call && !self_include {
        return Err(Bad::Known("F17", format!("{what}: stack overflow, killed by signal {:?}", o.signal)));
    }
    contract(&o, &what)?;
    // value oracle where the template is valid and printed
    if let (Some(v), true, Some(0)) = (&value, prints_template, o.code) {
        ensure!(o.out_str().trim_end_matches('\n') == v, "{what}: printed {:?}, the template evaluates to {v:?}", o.out_str().chars().take(100).collect::<String>());
    }
    if let (Some(_), true) = (&value, prints_template) {
        ensure!(o.code == Some(0), "{what}: a valid template is rejected: {}", o.err_str().chars().take(300).collect::<String>());
    }
    Ok(())
}
fn deep_case() -> BoxedStrategy<DeepCase> {
    // depth: log-uniform up to what fits one argv element (128 KiB); nested calls stay under the cap
    (0u8..11, 0u32..1700, 0u8..4)
        .prop_map(|(kind, e, site)| {
            let per_level: u32 = match kind { 10 => 60_000, 0 | 6 => 2, 1 => 24, 2 => 2, 3 => 9, 4 => 6, 5 | 7 => 4, 8 => 16, _ => 23 };
            let max = if matches!(kind, 8 | 9) { CALL_DEPTH_CAP } else { 120_000 / per_level };
            // e in 0..1700 -> 10^(e/350) in 1 .. ~72000
            let d = (10f64.powf(e as f64 / 350.0)) as u32;
            DeepCase { kind, depth: d.clamp(1, max), site }
        })
        .boxed()
}

// ---------------------------------------------------------------------------------------
const MODES: [&str; 10] = ["exit1", "silent", "multiline", "notrepo", "head", "empty", "garbage", "nonnumeric", "huge", "signal"];
#[derive(Debug, Clone, Hash, Serialize, Deserialize)]
pub struct FaultCase {
    pub ops: Vec<Op>,
    pub flow: bool,
    pub pep440: bool,
}
fn shim_path() -> String {
    format!("{}/shim:{}", std::env::var("VERIF_ROOT").unwrap_or_else(|_| "/verif".into()), proc::BASE_PATH)
}
fn run_with_shim(repo: &Repo, c: &FaultCase, shim_dir: &std::path::Path, fail_at: usize, mode: &str) -> proc::Out {
    let _ = std::fs::remove_file(shim_dir.join("count"));
    let _ = std::fs::remove_file(shim_dir.join("log"));
    let args = cli::sv(&[if c.flow { "flow" } else { "version" }, "-C", &repo.path(), "--output-format", if c.pep440 { "pep440" } else { "semver" }]);
    proc::run(&proc::Spec {
        args,
        cwd: Some("/".into()),
        path: Some(shim_path()),
        env: vec![("SHIM_DIR".into(), shim_dir.to_string_lossy().into_owned()), ("SHIM_FAIL_AT".into(), fail_at.to_string()), ("SHIM_MODE".into(), mode.to_string())],
        ..Default::default()
    })
}
fn check_faults(c: &FaultCase, cx: &mut Cx) -> Res {
    let mut repo = match Repo::new() {
        Ok(r) => r,
        Err(e) => {
            infra(format!("cannot create repository: {e}"));
            return Ok(());
        }
    };
    for op in &c.ops {
        if let Err(e) = repo.apply(op) {
            infra(format!("git operation failed in the harness: {e}"));
            return Ok(());
        }
    }
    let shim_dir = repo.dir.with_extension("shim");
    let _ = std::fs::create_dir_all(&shim_dir);
    struct Rm(std::path::PathBuf);
    impl Drop for Rm {
        fn drop(&mut self) {
            let _ = std::fs::remove_dir_all(&self.0);
        }
    }
    let _rm = Rm(shim_dir.clone());
    // learn the N git invocations of a fault-free run
    let base = run_with_shim(&repo, c, &shim_dir, 0, "exit1");
    contract(&base, "fault-free run through the shim")?;
    let n: usize = std::fs::read_to_string(shim_dir.join("count")).ok().and_then(|s| s.trim().parse().ok()).unwrap_or(0);
    ensure!(n > 0, "harness: the shim saw no git invocation (PATH not honoured?)");
    let log = std::fs::read_to_string(shim_dir.join("log")).unwrap_or_default();
    cx.nt();
    cx.label_if(base.code == Some(0), "base-succeeds");
    let mut runs = 0u64;
    for k in 1..=n {
        for mode in MODES {
            let o = run_with_shim(&repo, c, &shim_dir, k, mode);
            runs += 1;
            let call = log.lines().nth(k - 1).unwrap_or("?");
            contract(&o, &format!("git call #{k} ({call}) failing with {mode}; repo: {}", repo.log.join("; ")))?;
            if o.code == Some(0) {
                let out = o.out_str();
                ensure!(out.ends_with('\n') && out.trim_end_matches('\n').lines().count() == 1, "git call #{k} ({call}) failing with {mode}: stdout is not exactly one line: {out:?}");
            }
        }
    }
    cx.extra_evals = runs;
    cx.note(|| format!("{} git calls x {} fault modes on: {}", n, MODES.len(), repo.log.join("; ")));
    Ok(())
}

fn check_special(which: &usize, cx: &mut Cx) -> Res {
    cx.nt();
    if *which >= 36 {
        // Tera's own built-in functions are reachable from every template.  get_random() with an empty
        // range panics inside the `rand` crate (F30); the other calls must keep the process contract
        let t = ["{{ get_random(start=5, end=1) }}", "{{ get_random(start=1, end=1) }}", "{{ get_random(start=0, end=1) }}", "{{ range(end=3) | length }}", "{{ throw(message=\"x\") }}", "{{ get_env(name=\"ZV_NO_SUCH_VARIABLE\") }}"][(*which - 36) % 6];
        let o = proc::run(&proc::Spec { args: cli::sv(&["render", "1.2.3", "--output-template", t]), ..Default::default() });
        let what = format!("render 1.2.3 --output-template {t:?}");
        cx.note(|| format!("{what}: exit {:?}, stdout {:?}", o.code, o.out_str()));
        if t.contains("get_random(") && o.code == Some(101) && o.err_str().contains("cannot sample empty range") {
            return Err(Bad::Known("F30", format!("{what}: Tera's built-in get_random() panics on an empty range (exit 101)")));
        }
        contract(&o, &what)?;
        return Ok(());
    }
    if *which >= 30 {
        // a hand-written document whose custom value is nested deeper than anything zerv writes itself:
        // refused cleanly, or read and answered with the requested result - never a serialisation
        // message on stdout with status 0, never a stack overflow in the recursive reader / drop
        let depth = [40usize, 70, 140, 1_000, 20_000, 200_000][(*which - 30) % 6];
        for (open, close) in [("{\"a\": ", "}"), ("[", "]")] {
            let doc = format!("(schema: (core: [var(Major)], extra_core: [], build: []), vars: (major: Some(1), custom: {}{}1{}{}))", if open == "[" { "{\"k\": " } else { "" }, open.repeat(depth), close.repeat(depth), if open == "[" { "}" } else { "" });
            for fmt in ["zerv", "semver"] {
                let o = proc::run(&proc::Spec { args: cli::sv(&["version", "--source", "stdin", "--output-format", fmt]), stdin: Some(doc.clone().into_bytes()), ..Default::default() });
                let what = format!("version --source stdin --output-format {fmt} on a document whose custom value is nested {depth} deep ({open:?})");
                cx.note(|| format!("{what}: exit {:?}, stdout {:?}, stderr {:?}", o.code, o.out_str().chars().take(40).collect::<String>(), o.err_str().trim().chars().take(100).collect::<String>()));
                contract(&o, &what)?;
                if o.ok() {
                    let out = o.out_str();
                    ensure!(if fmt == "zerv" { out.trim_start().starts_with('(') && out.contains("schema") } else { out.trim() == "1.0.0" }, "{what}: status 0, but stdout is not the requested result: {:?}", out.chars().take(200).collect::<String>());
                }
            }
        }
        return Ok(());
    }
    if *which >= 24 {
        // an argument vector that is not valid UTF-8 (a Latin-1 branch name, a stray byte from a
        // shell variable): std::env::args() panics on it (F28); every position a value can take
        let bad: &[u8] = [&b"\xff\xfe"[..], b"caf\xe9", b"1.2.3\xc3", b"\xed\xa0\x80"][*which % 4];
        let (pre, post): (Vec<&str>, Vec<&str>) = match which {
            24 => (vec!["check"], vec![]),
            25 => (vec!["render"], vec![]),
            26 => (vec!["version", "--source", "none", "--tag-version", "1.2.3", "--bumped-branch"], vec![]),
            27 => (vec!["flow", "--source", "none", "--tag-version", "1.2.3", "--output-prefix"], vec![]),
            28 => (vec!["version", "-C"], vec![]),
            _ => (vec![], vec!["version"]),
        };
        let mut raw: Vec<Vec<u8>> = vec![bad.to_vec()];
        raw.extend(post.iter().map(|s| s.as_bytes().to_vec()));
        let o = proc::run(&proc::Spec { args: cli::sv(&pre), raw_args: raw, ..Default::default() });
        let what = format!("{pre:?} + the argument {:?} (not valid UTF-8) {post:?}", String::from_utf8_lossy(bad));
        cx.note(|| format!("{what}: exit {:?}, stderr {:?}", o.code, o.err_str().trim().chars().take(160).collect::<String>()));
        contract(&o, &what)?;
        ensure!(o.code != Some(0), "{what}: accepted");
        return Ok(());
    }
    if *which >= 18 {
        // stdout that cannot be written to: the result, the help text and the version banner must
        // fail cleanly (print!() panics on a write error)
        let argv: Vec<&str> = match which {
            18 => vec!["render", "1.2.3"],
            19 => vec!["--help"],
            20 => vec!["version", "--help"],
            21 => vec!["--version"],
            22 => vec!["check", "1.2.3"],
            _ => vec!["flow", "--help"],
        };
        let o = proc::run(&proc::Spec { args: cli::sv(&argv), stdout_to: Some("/dev/full".into()), ..Default::default() });
        let what = format!("{argv:?} with stdout on /dev/full");
        cx.note(|| format!("{what}: exit {:?}, stderr {:?}", o.code, o.err_str().trim().chars().take(160).collect::<String>()));
        contract(&o, &what)?;
        ensure!(o.code == Some(1), "{what}: nothing could be written, yet the exit status is {:?}", o.code);
        return Ok(());
    }
    if *which >= 14 {
        // several names for one version on the tagged commit (build metadata, letter case)
        let (names, fmt): (&[&str], &str) = match which {
            14 => (&["v1.4.0+linux", "v1.4.0+macos", "v1.4.0+win32"], "semver"),
            15 => (&["1.0rc1", "1.0RC1", "1.0Rc1"], "pep440"),
            16 => (&["1.2.3", "v1.2.3", "1.2.3+a", "1.2.3+b"], "auto"),
            _ => (&["2.0.0-rc.1+x", "2.0.0-rc.1+y"], "semver"),
        };
        let names: Vec<String> = names.iter().map(|s| s.to_string()).collect();
        let (repo, made) = match crate::gitlab::repo_with_tags(&names, None, (*which % 2) as u8) {
            Ok(x) => x,
            Err(e) => {
                infra(format!("cannot build the repository: {e}"));
                return Ok(());
            }
        };
        for sub in ["version", "flow"] {
            let o = proc::run(&proc::Spec { args: cli::sv(&[sub, "-C", &repo.path(), "--input-format", fmt]), ..Default::default() });
            let what = format!("{sub} on a commit tagged {made:?} ({fmt})");
            cx.note(|| format!("{what}: exit {:?}, stdout {:?}", o.code, o.out_str()));
            contract(&o, &what)?;
            ensure!(o.code == Some(0), "{what}: expected a version, got exit {:?}: {}", o.code, o.err_str().trim());
        }
        return Ok(());
    }
    let root = std::env::var("VERIF_ROOT").unwrap_or_else(|_| "/verif".into());
    let dir = std::path::Path::new(&root).join(".cache").join("tmp").join(format!("special-{}-{}", std::process::id(), which));
    let _ = std::fs::remove_dir_all(&dir);
    std::fs::create_dir_all(&dir).map_err(|e| Bad::Fail(e.to_string()))?;
    struct Rm(std::path::PathBuf);
    impl Drop for Rm {
        fn drop(&mut self) {
            let _ = std::fs::remove_dir_all(&self.0);
        }
    }
    let _rm = Rm(dir.clone());
    let d = dir.to_string_lossy().into_owned();
    let git = |args: &[&str]| {
        let mut cmd = std::process::Command::new("git");
        crate::gitlab::git_env(&mut cmd);
        cmd.current_dir(&dir).args(args).output().ok();
    };
    let (spec, what): (proc::Spec, &str) = match which % 14 {
        0 => (proc::Spec { args: cli::sv(&["version", "-C", &d]), ..Default::default() }, "-C is not a repository"),
        1 => {
            git(&["init", "-q", "-b", "main", "."]);
            (proc::Spec { args: cli::sv(&["version", "-C", &d]), ..Default::default() }, "repository without commits")
        }
        2 => {
            git(&["init", "-q", "-b", "main", "."]);
            (proc::Spec { args: cli::sv(&["flow", "-C", &d]), ..Default::default() }, "flow in a repository without commits")
        }
        3 => {
            git(&["init", "-q", "-b", "main", "."]);
            (proc::Spec { args: cli::sv(&["version", "-C", &d]), path: Some("/nonexistent-bin".into()), ..Default::default() }, "git missing from PATH")
        }
        4 => (proc::Spec { args: cli::sv(&["version"]), cwd: Some(d.clone()), path: Some("/nonexistent-bin".into()), ..Default::default() }, "git missing and cwd not a repository"),
        5 => (proc::Spec { args: cli::sv(&["version", "-C", "/nonexistent/dir"]), ..Default::default() }, "-C does not exist"),
        6 => {
            std::fs::write(dir.join(".git"), "gitdir: /nonexistent\n").ok();
            (proc::Spec { args: cli::sv(&["version", "-C", &d]), ..Default::default() }, ".git is a dangling gitdir file")
        }
        7 => {
            git(&["init", "-q", "-b", "main", "."]);
            std::fs::write(dir.join(".git").join("HEAD"), "garbage\n").ok();
            (proc::Spec { args: cli::sv(&["flow", "-C", &d]), ..Default::default() }, "corrupt HEAD")
        }
        n => {
            // unusual but healthy repositories: shallow clones, a linked work tree, a bare clone
            let o = dir.join("origin");
            std::fs::create_dir_all(&o).ok();
            let og = |args: &[&str]| {
                let mut cmd = std::process::Command::new("git");
                crate::gitlab::git_env(&mut cmd);
                cmd.env("GIT_AUTHOR_DATE", "1500000000 +0530").env("GIT_COMMITTER_DATE", "1600000000 +0000");
                cmd.current_dir(&o).args(args).output().ok();
            };
            og(&["init", "-q", "-b", "main", "."]);
            for i in 0..5 {
                std::fs::write(o.join("f.txt"), format!("{i}\n")).ok();
                og(&["add", "f.txt"]);
                og(&["commit", "-q", "-m", &format!("c{i}")]);
                if i == 2 {
                    og(&["tag", "v1.2.3"]);
                }
            }
            let url = format!("file://{}", o.to_string_lossy());
            let clone = format!("{d}/clone");
            let (depth, sub, what): (Option<&str>, &str, &str) = match n {
                8 => (Some("3"), "version", "shallow clone, tag inside the cut-off history, ahead of the tag"),
                9 => (Some("3"), "flow", "shallow clone, flow, ahead of the tag"),
                10 => (Some("1"), "version", "shallow clone of depth 1: the tag is cut off"),
                11 => (Some("4"), "version", "shallow clone with -v"),
                12 => (None, "version", "linked work tree (git worktree add)"),
                _ => (None, "version", "bare clone"),
            };
            match (n, depth) {
                (_, Some(dp)) => git(&["clone", "-q", "--depth", dp, &url, "clone"]),
                (12, _) => og(&["worktree", "add", "-q", &clone, "-b", "wt"]),
                _ => git(&["clone", "-q", "--bare", &url, "clone"]),
            }
            let mut args = cli::sv(&[sub, "-C", &clone]);
            if n == 11 {
                args.insert(0, "-v".into());
            }
            (proc::Spec { args, ..Default::default() }, what)
        }
    };
    let o = proc::run(&spec);
    cx.note(|| format!("{what}: exit {:?}, stdout {:?}, stderr {:?}", o.code, o.out_str(), o.err_str().trim().chars().take(200).collect::<String>()));
    contract(&o, what)?;
    if which % 14 < 8 {
        ensure!(o.code == Some(1), "{what}: expected a clean failure, got exit {:?} with stdout {:?}", o.code, o.out_str());
    } else if o.code == Some(0) {
        let out = o.out_str();
        ensure!(out.ends_with('\n') && out.trim_end_matches('\n').lines().count() == 1, "{what}: stdout is not exactly the one result line: {out:?}");
    }
    if matches!(which % 14, 8 | 9 | 11 | 12) {
        ensure!(o.code == Some(0), "{what}: expected a version, got exit {:?}: {}", o.code, o.err_str().trim());
    }
    Ok(())
}

/// the generator's flag tables match the real clap definitions (guards the generator; also
/// notices renamed flags)
fn check_table(sub: &usize, cx: &mut Cx) -> Res {
    let name = SUBS[sub % 4];
    let o = proc::zerv(&[name, "--help"], None);
    ensure!(o.code == Some(0) && o.stderr.is_empty() || o.code == Some(0), "--help failed for {name}");
    let help = o.out_str();
    cx.nt();
    let mut in_help: Vec<String> = Vec::new();
    for line in help.lines() {
        let t = line.trim_start();
        // option lines of clap's help: "  -s, --source <SOURCE>" or "      --dirty"
        if line.starts_with("  ") && (t.starts_with("--") || (t.starts_with('-') && t.contains(", --"))) {
            if let Some(i) = t.find("--") {
                let f: String = t[i + 2..].chars().take_while(|c| c.is_ascii_alphanumeric() || *c == '-').collect();
                if !f.is_empty() && !in_help.contains(&f) {
                    in_help.push(f);
                }
            }
        }
    }
    let table: Vec<&str> = ga::flags_of(name).iter().map(|f| f.0).collect();
    for f in &table {
        ensure!(in_help.iter().any(|h| h == f), "flag --{f} of the harness table is not an option of `zerv {name}` (options: {in_help:?})");
    }
    for h in &in_help {
        ensure!(table.contains(&h.as_str()) || matches!(h.as_str(), "help" | "verbose" | "version" | "llm-help"), "`zerv {name}` has option --{h} which the harness table does not generate");
    }
    cx.note(|| format!("{name}: {} options", in_help.len()));
    Ok(())
}

pub fn property() -> Property {
    let l1 = RandomSub::<ArgvCase>::new("argv-fuzz", (200_000, 3_000_000), |_| argv_case(), check_l1).floor(0.3);
    let l2 = RandomSub::<ArgvCase>::new(
        "argv-fuzz-binary",
        (700, 10_000),
        |_| {
            argv_case()
                .prop_filter("argv-safe", |c| argv_of(c).iter().all(|a| proc::argv_safe(a)) && c.stdin.as_ref().is_none_or(|s| proc::argv_safe(s)))
                .prop_map(|mut c| {
                    // help/version sometimes
                    if c.flags.len() == 6 {
                        c.flags.push(("help".into(), None));
                    }
                    c
                })
                .boxed()
        },
        check_l2,
    )
    .shrink_iters(150)
    .floor(0.2);
    let faults = RandomSub::<FaultCase>::new(
        "git-faults",
        (14, 300),
        |_| (proptest::collection::vec(c02::op_strategy(), 0..8), any::<bool>(), any::<bool>()).prop_map(|(mut ops, flow, pep440)| {
            // make sure most repositories have a version tag so the happy path is long
            ops.insert(0, Op::Tag { name: 1, annotated: false, at: None });
            FaultCase { ops, flow, pep440 }
        }).boxed(),
        check_faults,
    )
    .shrink_iters(20);
    let deep = RandomSub::<DeepCase>::new("deep-templates", (320, 6_000), |_| deep_case(), check_deep).shrink_iters(60).floor(0.3);
    let special = EnumSub::<usize>::new("special-states", "8 environment faults (-C not a repository / nonexistent, repository without commits (version, flow), git missing from PATH (two ways), dangling gitdir file, corrupt HEAD) and 6 unusual healthy repositories (shallow clones with the tag inside / outside the history, with -v, flow; a linked work tree; a bare clone; four commits carrying several names of one version; six commands whose stdout is /dev/full; six command lines with an argument that is not valid UTF-8; stdin documents whose custom value is nested 40 .. 200 000 deep; six calls of Tera's own built-in functions)", |_t, shard, n, visit| {
        for i in 0..42usize {
            if i % n == shard && !visit(&i) {
                return;
            }
        }
    }, check_special);
    let table = EnumSub::<usize>::new("flag-table", "the four sub-commands: generator flag table == options in --help", |_t, shard, n, visit| {
        for i in 0..4usize {
            if i % n == shard && !visit(&i) {
                return;
            }
        }
    }, check_table);
    Property {
        id: "C13",
        rule: "cases = (sub-command, up to 6 flags from the real flag set with adversarial values: non-ASCII text at byte offsets that split characters, huge/negative numbers, broken and hostile templates incl. every custom function, malformed RON/JSON/rule sets; positional version strings; stdin: valid, truncated, mutated and garbage objects). argv-fuzz (in-process): no panic. argv-fuzz-binary: exit status 0 or 1, failure => empty stdout and non-empty stderr, library and binary agree, -v / RUST_LOG=trace leave stdout byte-identical. git-faults: for repositories from generated op sequences, every git invocation zerv makes (learned with a counting PATH shim) fails in turn in 10 ways (exit 1 with a message, silent exit 1, multi-line stderr, 'not a git repository', ambiguous HEAD, empty output, invalid UTF-8 garbage, non-numeric, huge number, killed by signal) for version and flow; plus 8 special states (git missing, no commits, not a repository ...). deep-templates (binary only): ten template shapes (nested parentheses, {% if %} blocks, +/and/~ chains, filter chains, arrays, not-chains, nested function calls and filter arguments) at log-uniform depth 1..60000 (what fits one argv element) in render/version/flow --output-template and --bump-major: the process contract, and the printed value where the template is valid. Non-trivial = the case gets past clap's argument parsing / every fault case; distinct = distinct cases.",
        assumptions: vec![
            "--llm-help is excluded (it spawns a pager)",
            "stderr is unconstrained on success (zerv logs swallowed git errors there at ERROR level)",
            "10-digit numbers within 5 s of the wall clock are masked when comparing stdout between runs (documented dirty/ahead dev timestamp)",
        ],
        subs: vec![table.boxed(), l1.boxed(), l2.boxed(), deep.boxed(), faults.boxed(), special.boxed()],
        known_repro: vec![
            ("F17", "deep-templates", serde_json::json!({"kind": 0, "depth": 30000, "site": 0})),
            ("F18", "deep-templates", serde_json::json!({"kind": 8, "depth": 16, "site": 0})),
            ("F23", "deep-templates", serde_json::json!({"kind": 10, "depth": 1, "site": 0})),
            ("F30", "special-states", serde_json::json!(36)),
        ],
    }
}
