//! C01 — every emitted version string is well-formed in the requested format (DESIGN.md §6 C01).
use crate::cli;
use crate::gens::flags::{self, Flag};
use crate::gens::zervgen as zg;
use crate::gens;
use crate::model::*;
use crate::oracle::{pep440 as opep, semver as osem};
use crate::proc;
use crate::runner::*;
use proptest::prelude::*;
use serde::{Deserialize, Serialize};
use std::str::FromStr;

#[derive(Debug, Clone, Hash, Serialize, Deserialize)]
pub enum SchemaSel {
    Default,
    Preset(usize),
    Ron(MSchema),
}
#[derive(Debug, Clone, Hash, Serialize, Deserialize)]
pub struct Case {
    /// None = --source none; Some = --source stdin with this object
    pub stdin: Option<MZerv>,
    pub schema: SchemaSel,
    pub flags: Vec<Flag>,
    pub pep440: bool,
    pub prefix: Option<String>,
}

pub fn argv(c: &Case) -> Vec<String> {
    let mut a = vec![format!("--source={}", if c.stdin.is_some() { "stdin" } else { "none" })];
    match &c.schema {
        SchemaSel::Default => {}
        SchemaSel::Preset(i) => a.push(format!("--schema={}", zg::PRESETS[*i % 22])),
        SchemaSel::Ron(s) => a.push(format!("--schema-ron={}", s.to_ron())),
    }
    a.extend(flags::to_argv(&c.flags));
    a.push(format!("--output-format={}", if c.pep440 { "pep440" } else { "semver" }));
    if let Some(p) = &c.prefix {
        a.push(format!("--output-prefix={p}"));
    }
    a
}

fn free_text_nonalnum(c: &Case) -> bool {
    let t = |s: &Option<String>| s.as_ref().is_some_and(|s| s.chars().any(|ch| !ch.is_ascii_alphanumeric()));
    let from_flags = c.flags.iter().any(|f| matches!(f.name.as_str(), "bumped-branch" | "bumped-commit-hash" | "custom") && t(&f.value));
    let from_stdin = c.stdin.as_ref().is_some_and(|z| t(&z.vars.bumped_branch) || t(&z.vars.bumped_commit_hash) || !z.vars.custom_json.is_empty());
    let lits = |s: &MSchema| s.all().any(|c| matches!(c, MComp::Str(x) if x.chars().any(|ch| !ch.is_ascii_alphanumeric())));
    let from_schema = match &c.schema {
        SchemaSel::Ron(s) => lits(s),
        SchemaSel::Default => c.stdin.as_ref().is_some_and(|z| lits(&z.schema)),
        _ => false,
    };
    from_flags || from_stdin || from_schema
}

/// the body must be valid in format F, ASCII, accepted by zerv itself, and (presets) a fixed point of render
pub fn check_body(body: &str, pep440: bool, preset_schema: bool) -> Res {
    ensure!(body.is_ascii(), "output {body:?} contains non-ASCII characters");
    ensure!(!body.contains('\n') && !body.contains('\r'), "output {body:?} is not a single line");
    if pep440 {
        let p = opep::parse(body).ok_or_else(|| Bad::Fail(format!("output {body:?} is not a PEP 440 version")))?;
        let nf = opep::normal_form(&p);
        ensure!(nf == body, "output {body:?} is not in PEP 440 normal form (normal form: {nf:?})");
        let z = zerv::version::PEP440::from_str(body).map_err(|e| Bad::Fail(format!("zerv's own PEP 440 parser rejects its output {body:?}: {e}")))?;
        ensure!(z.to_string() == body, "zerv re-prints its output {body:?} as {:?}", z.to_string());
        match cli::check(&cli::sv(&["--format", "pep440", "--", body])) {
            cli::Run::Ok(t) => ensure!(!t.contains("normalized"), "zerv check reports {body:?} as not normalised: {t:?}"),
            other => return fail(format!("zerv check --format pep440 rejects the output {body:?}: {}", other.describe())),
        }
    } else {
        let sem = osem::parse(body).ok_or_else(|| Bad::Fail(format!("output {body:?} is not valid SemVer 2.0.0")))?;
        if !osem::all_numbers_fit_u64(&sem) {
            // known finding F16: a run of >= 20 digits supplied as free text in a pre-release
            // position is emitted as a numeric identifier that zerv's own parser cannot read back
            if zerv::version::SemVer::from_str(body).is_err() {
                return Err(Bad::Known("F16", format!("emitted {body:?}, which zerv's own SemVer parser rejects (numeric identifier above u64)")));
            }
        }
        let z = zerv::version::SemVer::from_str(body).map_err(|e| Bad::Fail(format!("zerv's own SemVer parser rejects its output {body:?}: {e}")))?;
        ensure!(z.to_string() == body, "zerv re-prints its output {body:?} as {:?}", z.to_string());
        match cli::check(&cli::sv(&["--format", "semver", "--", body])) {
            cli::Run::Ok(_) => {}
            other => return fail(format!("zerv check --format semver rejects the output {body:?}: {}", other.describe())),
        }
    }
    if preset_schema {
        let f = if pep440 { "pep440" } else { "semver" };
        match cli::render(&cli::sv(&["--input-format", f, "--output-format", f, "--", body])) {
            cli::Run::Ok(r) => ensure!(r == body, "re-rendering the output {body:?} in {f} gives {r:?}"),
            other => return fail(format!("re-rendering the output {body:?} in {f} fails: {}", other.describe())),
        }
    }
    Ok(())
}

fn uses_preset_schema(c: &Case) -> bool {
    match &c.schema {
        SchemaSel::Preset(_) => true,
        SchemaSel::Default => c.stdin.is_none(),
        SchemaSel::Ron(_) => false,
    }
}

/// F7 (fixed in /repo): From<SemVer> for Zerv panicked on a repeated secondary label
pub fn is_f7_panic(msg: &str) -> bool {
    msg.contains("SemVer default conversion should work") && msg.contains("Duplicate secondary component")
}

fn check_l1(c: &Case, cx: &mut Cx) -> Res {
    let stdin = match &c.stdin {
        Some(z) => Some(z.to_zerv().map_err(|e| Bad::Fail(format!("harness bug: {e}")))?.to_string()),
        None => None,
    };
    let run = cli::version(&argv(c), stdin.as_deref());
    cx.label_if(run.is_ok(), "succeeded");
    cx.label_if(c.stdin.is_some(), "stdin-source");
    cx.label_if(matches!(c.schema, SchemaSel::Ron(_)), "custom-schema");
    cx.label_if(c.flags.len() >= 2, ">=2-flags");
    let out = match &run {
        cli::Run::Ok(s) => s.clone(),
        // failures and panics are the business of C13; C01 speaks about successful runs
        _ => return Ok(()),
    };
    cx.note(|| format!("{:?} -> {out}", argv(c)));
    let prefix = c.prefix.clone().unwrap_or_default();
    let body = out.strip_prefix(&prefix).ok_or_else(|| Bad::Fail(format!("output {out:?} does not start with the prefix {prefix:?}")))?;
    cx.nt_if(free_text_nonalnum(c) || body.bytes().filter(|b| b.is_ascii_digit()).count() >= 10);
    cx.label_if(!argv(c).iter().all(|a| a.is_ascii()) || stdin.as_ref().is_some_and(|s| !s.is_ascii()), "non-ascii-input");
    match no_panic(|| check_body(body, c.pep440, uses_preset_schema(c))) {
        Ok(r) => r,
        Err(p) if is_f7_panic(&p) => fail(format!("F7 regression: re-rendering {body:?} panics: {p}")),
        Err(p) => fail(format!("panic while re-reading output {body:?}: {p}")),
    }
}

pub fn case_strategy() -> BoxedStrategy<Case> {
    (
        prop_oneof![2 => Just(None), 1 => zg::mzerv(false).prop_map(Some), 1 => zg::mzerv(true).prop_map(Some)],
        prop_oneof![2 => Just(SchemaSel::Default), 3 => (0usize..22).prop_map(SchemaSel::Preset), 3 => zg::valid_schema_p().prop_map(SchemaSel::Ron)],
        flags::version_flags(),
        any::<bool>(),
        proptest::option::weighted(0.2, prop_oneof![Just("v".to_string()), Just("release-".to_string()), gens::text::tame()]),
    )
        .prop_map(|(stdin, schema, flags, pep440, prefix)| Case { stdin, schema, flags, pep440, prefix })
        .boxed()
}
/// C01 judges validity only, so timestamps may leave the range the rendering model covers:
/// years >= 10000 (strftime prints "+10000"), beyond chrono's range, beyond i64
pub fn wide_timestamp() -> BoxedStrategy<u64> {
    prop_oneof![
        3 => 253402300800u64..8210266876799,
        1 => 8210266876799u64..9_000_000_000_000_000_000,
        1 => gens::pick(&[253402300800u64, 253402300799, 8210266876799, 8210266876800, 9223372036854775807, 9223372036854775808, u64::MAX]),
    ]
    .boxed()
}
pub fn case_strategy_wide() -> BoxedStrategy<Case> {
    (case_strategy(), proptest::option::weighted(0.25, (wide_timestamp(), wide_timestamp(), any::<bool>())))
        .prop_map(|(mut c, w)| {
            if let Some((t1, t2, via_flag)) = w {
                if let Some(z) = &mut c.stdin {
                    z.vars.bumped_timestamp = Some(t1);
                    z.vars.last_timestamp = Some(t2);
                    // something that prints the year
                    z.schema.build.push(MComp::Var(MVar::Ts("YYYY".into())));
                }
                if via_flag || c.stdin.is_none() {
                    c.flags.retain(|f| f.name != "bumped-timestamp");
                    c.flags.push(Flag::v("bumped-timestamp", t1));
                }
                if let SchemaSel::Ron(s) = &mut c.schema {
                    s.extra_core.push(MComp::Var(MVar::Ts("compact_date".into())));
                    s.build.push(MComp::Var(MVar::Ts("YYYY".into())));
                }
            }
            c
        })
        .boxed()
}

fn argv_ok(c: &Case) -> bool {
    argv(c).iter().all(|a| proc::argv_safe(a))
}

#[derive(Debug, Clone, Hash, Serialize, Deserialize)]
pub struct GitCase {
    pub branch: usize,
    pub tag: usize,
    pub commits_after: u8,
    pub dirty: bool,
    pub schema: SchemaSel,
    pub pep440: bool,
    pub flow: bool,
    /// also run on a shallow clone (`git clone --depth N file://...`) of the repository
    #[serde(default)]
    pub shallow: Option<u8>,
}
fn check_git(c: &GitCase, cx: &mut Cx) -> Res {
    use crate::gitlab::{Op, Repo};
    let mut repo = match Repo::new() {
        Ok(r) => r,
        Err(e) => {
            infra(format!("cannot create repository: {e}"));
            return Ok(());
        }
    };
    let mut ops = vec![Op::Branch { name: c.branch }];
    if c.shallow.is_some() {
        // history before the tag, so that a clone can be cut off below it and still see the tag
        ops.push(Op::Commit { time_skew: 0 });
        ops.push(Op::Commit { time_skew: 0 });
    }
    ops.push(Op::Tag { name: c.tag, annotated: false, at: None });
    for _ in 0..c.commits_after {
        ops.push(Op::Commit { time_skew: 0 });
    }
    if c.dirty {
        ops.push(Op::DirtyUntracked);
    }
    for op in &ops {
        if let Err(e) = repo.apply(op) {
            infra(format!("git operation failed in the harness: {e}"));
            return Ok(());
        }
    }
    let run_at = |path: &str, cx: &mut Cx, what: &str| -> Res {
        let mut args = vec![if c.flow { "flow".to_string() } else { "version".to_string() }, "-C".into(), path.to_string()];
        match &c.schema {
            SchemaSel::Default => {}
            SchemaSel::Preset(i) => args.push(format!("--schema={}", if c.flow { zg::PRESETS[*i % 11] } else { zg::PRESETS[*i % 22] })),
            SchemaSel::Ron(s) => args.push(format!("--schema-ron={}", s.to_ron())),
        }
        args.push(format!("--output-format={}", if c.pep440 { "pep440" } else { "semver" }));
        let o = proc::run(&proc::Spec { args: args.clone(), cwd: Some("/".into()), ..Default::default() });
        if o.timed_out {
            infra("zerv -C timed out");
            return Ok(());
        }
        cx.label_if(o.ok(), if what.is_empty() { "succeeded" } else { "succeeded-on-shallow-clone" });
        if !o.ok() {
            return Ok(()); // e.g. the tag is not a version: no output is the right outcome (C02/C13)
        }
        let text = String::from_utf8(o.stdout.clone()).map_err(|_| Bad::Fail("stdout is not UTF-8".into()))?;
        let line = text.strip_suffix('\n').ok_or_else(|| Bad::Fail(format!("{what}stdout {text:?} does not end with a newline")))?;
        cx.note(|| format!("{what}{args:?} -> {line}"));
        check_body(line, c.pep440, !matches!(c.schema, SchemaSel::Ron(_))).map_err(|e| match e {
            Bad::Fail(m) => Bad::Fail(format!("{what}{m} (args {args:?})")),
            other => other,
        })
    };
    cx.nt_if(!crate::gitlab::BRANCHES[c.branch % 10].chars().all(|ch| ch.is_ascii_alphanumeric()) || c.shallow.is_some());
    run_at(&repo.path(), cx, "")?;
    if let Some(depth) = c.shallow {
        let clone = format!("{}-shallow", repo.path());
        let _ = std::fs::remove_dir_all(&clone);
        let mut cmd = std::process::Command::new("git");
        crate::gitlab::git_env(&mut cmd);
        let ok = cmd.current_dir("/").args(["clone", "-q", "--depth", &depth.max(1).to_string(), &format!("file://{}", repo.path()), &clone]).status().map(|s| s.success()).unwrap_or(false);
        if !ok {
            let _ = std::fs::remove_dir_all(&clone);
            infra("git clone --depth failed in the harness");
            return Ok(());
        }
        let r = run_at(&clone, cx, "[shallow clone] ");
        let _ = std::fs::remove_dir_all(&clone);
        r?;
    }
    Ok(())
}

#[derive(Debug, Clone, Hash, Serialize, Deserialize)]
pub struct FlowCase {
    pub c: crate::props::c04::Case,
    pub pep440: bool,
}
fn check_flow(f: &FlowCase, cx: &mut Cx) -> Res {
    let (mut a, stdin) = crate::props::c04::build_argv(&f.c);
    a.retain(|x| !x.starts_with("--output-format"));
    a.push(format!("--output-format={}", if f.pep440 { "pep440" } else { "semver" }));
    let run = cli::flow(&a, stdin.as_deref());
    cx.label_if(run.is_ok(), "succeeded");
    let Some(out) = run.ok() else { return Ok(()) };
    cx.nt_if(f.c.branch.as_ref().is_some_and(|b| b.chars().any(|ch| !ch.is_ascii_alphanumeric())));
    cx.note(|| format!("flow {a:?} -> {out}"));
    check_body(out, f.pep440, true)
}

pub fn property() -> Property {
    let flow = RandomSub::<FlowCase>::new("flow-valid", (40_000, 600_000), |_| (crate::props::c04::case_strategy(), any::<bool>()).prop_map(|(c, pep440)| FlowCase { c, pep440 }).boxed(), check_flow).floor(0.2);
    let git = RandomSub::<GitCase>::new(
        "git-source",
        (80, 1_200),
        |_| {
            (0usize..10, 0usize..22, 0u8..3, any::<bool>(), prop_oneof![2 => Just(SchemaSel::Default), 3 => (0usize..22).prop_map(SchemaSel::Preset), 2 => zg::valid_schema().prop_map(SchemaSel::Ron)], any::<bool>(), prop::bool::weighted(0.3))
                .prop_map(|(branch, tag, commits_after, dirty, schema, pep440, flow)| GitCase { branch, tag, commits_after, dirty, schema, pep440, flow, shallow: if (branch + tag) % 3 == 0 { Some(1 + ((branch * 7 + tag + commits_after as usize) % 4) as u8) } else { None } })
                .boxed()
        },
        check_git,
    )
    .shrink_iters(60);
    let l1 = RandomSub::<Case>::new("render-valid", (150_000, 2_500_000), |_| case_strategy_wide(), check_l1).floor(0.2);
    let l2 = RandomSub::<Case>::new(
        "cli-one-line",
        (1_500, 20_000),
        |_| case_strategy().prop_filter("argv-safe", argv_ok).boxed(),
        |c, cx| {
            let stdin = match &c.stdin {
                Some(z) => Some(z.to_zerv().map_err(|e| Bad::Fail(format!("harness bug: {e}")))?.to_string()),
                None => None,
            };
            let mut args = vec!["version".to_string()];
            args.extend(argv(c));
            let o = proc::run(&proc::Spec { args, stdin: stdin.clone().map(|s| s.into_bytes()), ..Default::default() });
            if o.timed_out {
                infra("zerv version timed out");
                return Ok(());
            }
            let l1 = cli::version(&argv(c), stdin.as_deref());
            cx.label_if(o.ok(), "succeeded");
            if !o.ok() {
                ensure!(!l1.is_ok(), "binary failed (exit {:?}: {}) where the library call succeeded with {:?}", o.code, o.err_str().trim(), l1.ok());
                return Ok(());
            }
            let text = String::from_utf8(o.stdout.clone()).map_err(|_| Bad::Fail("stdout is not UTF-8".into()))?;
            cx.note(|| format!("{:?} -> {text:?}", argv(c)));
            let prefix = c.prefix.clone().unwrap_or_default();
            let line = text.strip_suffix('\n').ok_or_else(|| Bad::Fail(format!("stdout {text:?} does not end with a newline")))?;
            ensure!(!line.contains('\n'), "stdout {text:?} is more than one line");
            let body = line.strip_prefix(&prefix).ok_or_else(|| Bad::Fail(format!("stdout {line:?} does not start with the prefix {prefix:?}")))?;
            cx.nt_if(free_text_nonalnum(c));
            // dirty => wall-clock timestamp may differ between the two runs; compare only otherwise
            let clocked = line.contains("dev") || c.flags.iter().any(|f| f.name == "dirty") || c.stdin.as_ref().is_some_and(|z| z.vars.dirty == Some(true));
            if let (Some(l), false) = (l1.ok(), clocked) {
                ensure!(l == line, "binary printed {line:?}, in-process call returned {l:?}");
            }
            match no_panic(|| check_body(body, c.pep440, uses_preset_schema(c))) {
                Ok(r) => r,
                Err(p) if is_f7_panic(&p) => fail(format!("F7 regression: re-rendering {body:?} panics: {p}")),
                Err(p) => fail(format!("panic while re-reading output {body:?}: {p}")),
            }
        },
    )
    .shrink_iters(300)
    .floor(0.1);
    Property {
        id: "C01",
        rule: "cases = (source none|stdin object, schema: default | one of the 22 presets | generated valid --schema-ron, random VCS/override/bump/index flags, output format, optional prefix); vars carry nasty Unicode text in branch/hash/custom/literal positions and boundary numbers. flow-valid: `zerv flow` runs from the C04 generator (tags, nasty branch names, rule sets, options) in both formats. Oracle on every successful run: prefix + one line; body accepted by the independent SemVer recogniser resp. equal to its own PEP 440 normal form per the independent normaliser; ASCII; zerv's own parser and `check` accept it; for preset schemas re-rendering in the same format is the identity. Non-trivial = run succeeded and a free-text position (branch, hash, custom value, str() literal) contained a character outside [A-Za-z0-9], or the body has >=10 digits; distinct = distinct cases.",
        assumptions: vec![
            "only successful runs are judged here (failures: C13)",
            "git-source: real repositories whose branch names need sanitising (Unicode, @, +, digits-only, leading zeros), version and flow, through the real binary",
        ],
        subs: vec![l1.boxed(), flow.boxed(), l2.boxed(), git.boxed()],
        known_repro: vec![(
            "F16",
            "render-valid",
            serde_json::json!({"stdin": null, "schema": {"Ron": {"core": [], "extra_core": [{"Str": "18446744073709551616"}], "build": []}}, "flags": [], "pep440": false, "prefix": null}),
        )],
    }
}
