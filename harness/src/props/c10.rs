//! C10 — SemVer comparison is SemVer 2.0.0 precedence (DESIGN.md §6 C10).
use crate::gens;
use crate::oracle::semver as osem;
use crate::runner::*;
use proptest::prelude::*;
use std::cmp::Ordering;
use std::str::FromStr;
use std::sync::OnceLock;
use zerv::vcs::git_utils::GitUtils;
use zerv::version::{SemVer, VersionObject};

const CORES: [&str; 8] = ["0.0.0", "0.0.1", "0.1.0", "1.0.0", "1.0.2", "1.10.0", "2.0.0", "10.2.1"];
const IDS: [&str; 7] = ["0", "1", "10", "a", "B", "-", "a-"];
const BUILDS: [&str; 4] = ["", "+b", "+1", "+z.9"];

/// all identifier lists of length <= 3 over IDS, shortest first (400 lists)
fn pre_lists() -> &'static Vec<String> {
    static L: OnceLock<Vec<String>> = OnceLock::new();
    L.get_or_init(|| {
        let mut v = vec![String::new()];
        for len in 1..=3usize {
            for k in 0..IDS.len().pow(len as u32) {
                let mut x = k;
                let mut ids = Vec::new();
                for _ in 0..len {
                    ids.push(IDS[x % IDS.len()]);
                    x /= IDS.len();
                }
                v.push(format!("-{}", ids.join(".")));
            }
        }
        v
    })
}
fn universe() -> &'static Vec<String> {
    static U: OnceLock<Vec<String>> = OnceLock::new();
    U.get_or_init(|| {
        let mut v = Vec::new();
        for c in CORES {
            for p in pre_lists() {
                v.push(format!("{c}{p}"));
            }
        }
        v
    })
}

/// None: a numeric identifier beyond u64 that zerv rejects (its documented range) - nothing to
/// compare.  When zerv *accepts* such a string, the pair is judged like any other: the oracle
/// compares digit strings of any magnitude.
fn parse(s: &str) -> Result<Option<(SemVer, osem::Sem)>, Bad> {
    let o = osem::parse_v(s).ok_or_else(|| Bad::Fail(format!("harness bug: oracle rejects {s:?}")))?;
    match SemVer::from_str(s) {
        Ok(z) => Ok(Some((z, o))),
        Err(_) if !osem::all_numbers_fit_u64(&o) => Ok(None),
        Err(e) => Err(Bad::Fail(format!("generator produced {s:?} which zerv rejects: {e}"))),
    }
}

fn check_pair(p: &(String, String), cx: &mut Cx) -> Res {
    let (Some((a, oa)), Some((b, ob))) = (parse(&p.0)?, parse(&p.1)?) else {
        cx.label("beyond-u64-rejected");
        return Ok(());
    };
    cx.label_if(!osem::all_numbers_fit_u64(&oa) || !osem::all_numbers_fit_u64(&ob), "beyond-u64-accepted");
    let want = osem::cmp(&oa, &ob);
    let got = a.cmp(&b);
    let rev = b.cmp(&a);
    cx.nt_if(p.0 != p.1);
    cx.label(match want {
        Ordering::Less => "less",
        Ordering::Equal => "equal",
        Ordering::Greater => "greater",
    });
    cx.note(|| format!("{} vs {}: zerv {:?}, spec {:?}", p.0, p.1, got, want));
    ensure!(got == want, "cmp({}, {}) = {got:?}, SemVer 2.0.0 precedence says {want:?}", p.0, p.1);
    ensure!(rev == got.reverse(), "antisymmetry: cmp({0},{1})={got:?} but cmp({1},{0})={rev:?}", p.0, p.1);
    ensure!((a == b) == (got == Ordering::Equal), "== disagrees with cmp on {} vs {}: eq={} cmp={got:?}", p.0, p.1, a == b);
    ensure!(a.partial_cmp(&b) == Some(got), "partial_cmp disagrees with cmp on {} vs {}", p.0, p.1);
    ensure!((a < b) == (got == Ordering::Less) && (a > b) == (got == Ordering::Greater), "operators disagree with cmp on {} vs {}", p.0, p.1);
    Ok(())
}

fn check_triple(t: &(String, String, String), cx: &mut Cx) -> Res {
    let (Some(a), Some(b), Some(c)) = (parse(&t.0)?, parse(&t.1)?, parse(&t.2)?) else {
        cx.label("beyond-u64-rejected");
        return Ok(());
    };
    let (a, b, c) = (a.0, b.0, c.0);
    cx.nt_if(t.0 != t.1 && t.1 != t.2 && t.0 != t.2);
    cx.note(|| format!("{:?}", t));
    let (ab, bc, ac) = (a.cmp(&b), b.cmp(&c), a.cmp(&c));
    if ab != Ordering::Greater && bc != Ordering::Greater {
        ensure!(ac != Ordering::Greater, "transitivity: {0} <= {1} <= {2} but {0} > {2}", t.0, t.1, t.2);
        if ab == Ordering::Less || bc == Ordering::Less {
            ensure!(ac == Ordering::Less, "transitivity (strict): {0} {ab:?} {1} {bc:?} {2} but {0} {ac:?} {2}", t.0, t.1, t.2);
        }
    }
    if ab == Ordering::Equal && bc == Ordering::Equal {
        ensure!(ac == Ordering::Equal, "equality not transitive on {:?}", t);
    }
    Ok(())
}

fn big_version() -> BoxedStrategy<String> {
    // one version in ten carries numeric identifiers beyond u64
    prop_oneof![9 => big_version_with(0), 1 => big_version_with(2)].boxed()
}
fn big_version_with(beyond_u64_weight: u32) -> BoxedStrategy<String> {
    // large numbers (u64 range), identifier lists up to 8, shared prefixes likely
    let id = prop_oneof![
        3 => gens::num::u64_biased().prop_map(|n| n.to_string()),
        // beyond u64: zerv may reject the version (documented range) - but if it accepts it, it
        // has to order it by value like any other number
        beyond_u64_weight => prop_oneof![Just("18446744073709551616".to_string()), "[1-9][0-9]{19,24}".prop_map(String::from), Just("100000000000000000000".to_string()), Just("20000000000000000000".to_string())],
        2 => gens::pick(&["a", "A", "b", "alpha", "beta", "rc", "-", "a-", "a0", "0a", "10a", "Z", "z", "--"]).prop_map(String::from),
        1 => "[0-9A-Za-z-]{0,3}[A-Za-z-][0-9A-Za-z-]{0,3}",
    ];
    (
        gens::pick(&[0u64, 1, 2, 10, u64::MAX]),
        gens::pick(&[0u64, 1, 9, 10, u64::MAX - 1]),
        gens::num::u64_biased(),
        proptest::collection::vec(id, 0..8),
        gens::pick(&BUILDS),
    )
        .prop_map(|(a, b, c, pre, build)| {
            let mut s = format!("{a}.{b}.{c}");
            if !pre.is_empty() {
                s.push('-');
                s.push_str(&pre.join("."));
            }
            s.push_str(build);
            s
        })
        .boxed()
}
/// pairs that share a long prefix (so the deciding identifier is deep)
fn related_pair() -> BoxedStrategy<(String, String)> {
    prop_oneof![
        2 => (big_version(), big_version()),
        3 => (big_version(), proptest::collection::vec(gens::pick(&["0", "1", "9", "10", "a", "B", "-", "18446744073709551615", "18446744073709551616", "100000000000000000000", "99999999999999999999"]), 0..3), any::<bool>(), gens::pick(&BUILDS)).prop_map(|(a, extra, swap, build)| {
            // b = a with extra identifiers appended / last identifier changed
            let core_pre = a.split('+').next().unwrap().to_string();
            let mut b = core_pre.clone();
            for (i, e) in extra.iter().enumerate() {
                if i == 0 && !b.contains('-') { b.push('-'); } else { b.push('.'); }
                b.push_str(e);
            }
            b.push_str(build);
            if swap { (b, a) } else { (a, b) }
        }),
        // the deciding identifiers are two numbers beyond u64 (by value: more digits is greater);
        // zerv may reject both versions, but if it reads them it has to order them by value
        1 => (big_version_with(0), "[1-9][0-9]{19,23}", "[1-9][0-9]{19,23}", proptest::collection::vec(gens::pick(&["0", "a", "1", "post"]), 0..3)).prop_map(|(a, n1, n2, rest)| {
            let base = a.split('+').next().unwrap().to_string();
            let sep = if base.contains('-') { "." } else { "-" };
            let tail: String = rest.iter().map(|r| format!(".{r}")).collect();
            (format!("{base}{sep}{n1}{tail}"), format!("{base}{sep}{n2}{tail}"))
        }),
        // b = a with one identifier in the middle lengthened (the identifiers after it stay), so
        // that one identifier is a proper prefix of its counterpart and more identifiers follow
        2 => (big_version(), any::<prop::sample::Index>(), gens::pick(&["-", "-2", "-a", "0", "a", "--", "-0"]), any::<bool>()).prop_map(|(a, at, suffix, swap)| {
            let (body, build) = match a.split_once('+') { Some((x, y)) => (x.to_string(), format!("+{y}")), None => (a.clone(), String::new()) };
            let b = match body.split_once('-') {
                Some((core, pre)) => {
                    let mut ids: Vec<String> = pre.split('.').map(String::from).collect();
                    let i = at.index(ids.len());
                    // a digit appended to a long number would leave the u64 range zerv documents
                    let numeric_overflow = ids[i].len() >= 19 && ids[i].bytes().all(|b| b.is_ascii_digit()) && suffix.bytes().all(|b| b.is_ascii_digit());
                    ids[i].push_str(if numeric_overflow { "-" } else { suffix });
                    format!("{core}-{}{build}", ids.join("."))
                }
                None => format!("{body}-{}{build}", suffix.trim_start_matches('0')),
            };
            let b = if osem::parse(&b).is_some() { b } else { a.clone() };
            if swap { (b, a) } else { (a, b) }
        }),
    ]
    .boxed()
}

/// the greatest tag on a commit, through the real binary and a real repository (the in-process
/// max-tag sub-check does not see how zerv lists the tags of a commit)
#[derive(Debug, Clone, Hash, serde::Serialize, serde::Deserialize)]
pub struct GitTagsCase {
    pub tags: Vec<String>,
    pub decoy: Option<usize>,
    pub commits_after: u8,
    pub auto: bool,
}
fn check_git_max(c: &GitTagsCase, cx: &mut Cx) -> Res {
    let (repo, made) = match crate::gitlab::repo_with_tags(&c.tags, c.decoy, c.commits_after) {
        Ok(x) => x,
        Err(e) => {
            infra(format!("cannot build the repository: {e}"));
            return Ok(());
        }
    };
    if made.is_empty() {
        return Ok(());
    }
    let fmt = if c.auto { "auto" } else { "semver" };
    let o = crate::proc::run(&crate::proc::Spec { args: crate::cli::sv(&["version", "-C", &repo.path(), "--input-format", fmt, "--output-format", "zerv"]), cwd: Some("/".into()), ..Default::default() });
    if o.timed_out {
        infra("zerv timed out");
        return Ok(());
    }
    cx.nt_if(made.len() >= 2);
    cx.label_if(c.decoy.is_some(), "branch-named-like-a-tag");
    // a name with a number beyond u64 is a version only if zerv reads it as one (documented range)
    let counts = |t: &String| osem::parse_v(t).is_some_and(|p| osem::all_numbers_fit_u64(&p) || SemVer::from_str(t).is_ok());
    if !c.auto && !made.iter().any(counts) {
        ensure!(o.code == Some(1) && o.stdout.is_empty(), "no SemVer tag among {made:?}, but zerv exits {:?} with {:?}", o.code, o.out_str());
        return Ok(());
    }
    if c.auto && o.code != Some(0) {
        return Ok(()); // auto on a mixed bag may find nothing it accepts; C02 judges the election
    }
    ensure!(o.code == Some(0), "zerv failed (exit {:?}: {}) on a commit tagged {made:?}", o.code, o.err_str().trim().chars().take(300).collect::<String>());
    let z = <zerv::version::Zerv as FromStr>::from_str(&o.out_str()).map_err(|e| Bad::Fail(format!("output does not parse: {e}")))?;
    let got = z.vars.last_tag_version.clone().unwrap_or_default();
    cx.note(|| format!("{made:?} (decoy {:?}) -> {got}", c.decoy));
    ensure!(made.contains(&got), "last_tag_version {got:?} is not one of the tags {made:?}");
    if c.auto {
        return Ok(()); // auto may elect PEP 440 for names both dialects accept; C02 judges the election
    }
    let g = osem::parse_v(&got).ok_or_else(|| Bad::Fail(format!("chosen tag {got:?} is not SemVer")))?;
    for t in &made {
        if let Some(o) = osem::parse_v(t) {
            // a tag with a number beyond u64 counts only if zerv accepts it as a version at all
            if !osem::all_numbers_fit_u64(&o) && SemVer::from_str(t).is_err() {
                continue;
            }
            ensure!(osem::cmp(&o, &g) != Ordering::Greater, "zerv chose {got} on a commit tagged {made:?}, but {t} is greater ({})", repo.log.join("; "));
        }
    }
    Ok(())
}

pub fn property() -> Property {
    let pairs = EnumSub::<(String, String)>::new(
        "enum-pairs",
        "all ordered pairs of the 3200-version universe: 8 cores x every pre-release list of length <=3 over {0,1,10,a,B,-,a-}; build metadata attached by index",
        |_tier, shard, n, visit| {
            let u = universe();
            for (i, a) in u.iter().enumerate() {
                if i % n != shard {
                    continue;
                }
                for (j, b) in u.iter().enumerate() {
                    let p = (format!("{a}{}", BUILDS[(i + j) % 4]), format!("{b}{}", BUILDS[(i * 7 + j * 3) % 4]));
                    if !visit(&p) {
                        return;
                    }
                }
            }
        },
        check_pair,
    );
    let triples_enum = EnumSub::<(String, String, String)>::new(
        "enum-triples",
        "transitivity on pre-release triples of 1.0.0: quick = every triple over the 57 lists of length <=2 (185 193); thorough = all 400^3 = 64 000 000 triples",
        |tier, shard, n, visit| {
            let l = pre_lists();
            let m = tier.pick(57, 400);
            for i in 0..m {
                if i % n != shard {
                    continue;
                }
                for j in 0..m {
                    for k in 0..m {
                        let t = (format!("1.0.0{}", l[i]), format!("1.0.0{}", l[j]), format!("1.0.0{}", l[k]));
                        if !visit(&t) {
                            return;
                        }
                    }
                }
            }
        },
        check_triple,
    );
    let rand_pairs = RandomSub::<(String, String)>::new("rand-pairs", (100_000, 4_000_000), |_| related_pair(), check_pair).floor(0.5);
    let rand_triples = RandomSub::<(String, String, String)>::new(
        "rand-triples",
        (100_000, 2_000_000),
        |_| {
            prop_oneof![
                1 => (big_version(), big_version(), big_version()),
                2 => (related_pair(), big_version(), 0usize..3).prop_map(|((a, b), c, r)| match r { 0 => (a, b, c), 1 => (a, c, b), _ => (c, a, b) }),
                2 => (0..3200usize, 0..3200usize, 0..3200usize).prop_map(|(i, j, k)| { let u = universe(); (u[i].clone(), u[j].clone(), u[k].clone()) }),
            ]
            .boxed()
        },
        check_triple,
    )
    .floor(0.5);
    // the greatest tag on a commit is well defined: find_max_version_tag returns an element no other exceeds
    let max_tag = RandomSub::<Vec<String>>::new(
        "max-tag",
        (30_000, 600_000),
        |_| {
            proptest::collection::vec(
                prop_oneof![
                    3 => (0..3200usize, any::<bool>()).prop_map(|(i, v)| format!("{}{}", if v { "v" } else { "" }, universe()[i])),
                    1 => big_version(),
                    // tags of one release line: two cores, every pre-release list, build metadata on some
                    4 => (0..2usize, 0..400usize, gens::pick(&BUILDS), gens::pick(&BUILDS), any::<bool>(), any::<bool>()).prop_map(|(c, p, b1, b2, v, which)| {
                        format!("{}{}{}{}", if v { "v" } else { "" }, ["1.4.0", "1.4.1"][c], pre_lists()[p], if which { b1 } else { b2 })
                    }),
                ],
                1..8,
            )
            .boxed()
        },
        |tags, cx| {
            let valid = GitUtils::filter_only_valid_tags(tags, "semver");
            let names: Vec<String> = valid.iter().map(|v| v.0.clone()).collect();
            // tags with a number beyond u64 may be dropped (documented range); nothing else may
            for t in tags {
                let fits = osem::all_numbers_fit_u64(&osem::parse_v(t).unwrap());
                ensure!(!fits || names.contains(t), "filter_only_valid_tags dropped the valid SemVer tag {t:?} from {tags:?}");
            }
            if valid.is_empty() {
                cx.label("beyond-u64-rejected");
                return Ok(());
            }
            let got = match no_panic(|| GitUtils::find_max_version_tag(&valid)) {
                Ok(Ok(Some(t))) => t,
                other => return fail(format!("find_max_version_tag({names:?}) = {other:?}")),
            };
            cx.nt_if(names.len() >= 2);
            cx.note(|| format!("{names:?} -> {got}"));
            ensure!(names.contains(&got), "returned tag {got:?} is not in the list {names:?}");
            let g = osem::parse_v(&got).unwrap();
            for t in &names {
                let o = osem::parse_v(t).unwrap();
                ensure!(osem::cmp(&o, &g) != Ordering::Greater, "max tag {got} of {names:?} is exceeded by {t}");
            }
            let _ = VersionObject::parse_semver(&got);
            Ok(())
        },
    )
    .floor(0.5);
    let git_max = RandomSub::<GitTagsCase>::new(
        "git-max-tag",
        (150, 2_500),
        |_| {
            let tag = (0..2usize, 0..400usize, gens::pick(&BUILDS), any::<bool>()).prop_map(|(c, p, b, v)| format!("{}{}{}{}", if v { "v" } else { "" }, ["1.4.0", "1.4.1"][c], pre_lists()[p], b));
            // (names that are no SemVer ride along: floating tags, markers, PEP 440-only spellings)
            let foreign = gens::pick(&["latest", "v1.4", "1.4", "nightly", "0-first", "1.4.0.post1", "1.4.1rc1", "v1", "stable", "1.4.x"]).prop_map(String::from);
            (proptest::collection::vec(prop_oneof![6 => tag, 2 => big_version(), 3 => foreign], 1..6), proptest::option::weighted(0.4, 0usize..6), 0u8..2, prop::bool::weighted(0.2))
                .prop_map(|(tags, decoy, commits_after, auto)| GitTagsCase { tags, decoy, commits_after, auto })
                .boxed()
        },
        check_git_max,
    )
    .shrink_iters(40);
    Property {
        id: "C10",
        rule: "cases = ordered pairs / triples of SemVer strings and tag lists. Exhaustive: all 3200^2 ordered pairs of a small universe and pre-release triples; random: large numbers (to u64::MAX), identifier lists up to 8, pairs sharing a prefix. Oracle: independent SemVer 2.0.0 §11 comparator on digit strings; laws (antisymmetry, transitivity, == iff Equal) checked without the oracle. Non-trivial = the strings of the pair/triple differ (pairs) or are pairwise different (triples), tag lists with >=2 tags; distinct = distinct tuples.",
        assumptions: vec!["versions with a numeric identifier beyond u64::MAX may be rejected (the parser's documented range); when zerv accepts one it is ordered by value like any other"],
        subs: vec![pairs.boxed(), triples_enum.boxed(), rand_pairs.boxed(), rand_triples.boxed(), max_tag.boxed(), git_max.boxed()],
        known_repro: vec![],
    }
}
