//! C07 — format conversion is faithful: zerv reads back its own versions unchanged (DESIGN.md §6 C07).
use crate::cli;
use crate::gens;
use crate::gens::pep::{PepV, Spelling};
use crate::oracle::{pep440 as opep, semver as osem};
use crate::proc;
use crate::runner::*;
use proptest::prelude::*;
use serde::{Deserialize, Serialize};

/// zerv's canonical SemVer shape; numbers as digit strings so out-of-range values can be expressed
#[derive(Debug, Clone, Hash, PartialEq, Eq, Serialize, Deserialize)]
pub struct Canon {
    pub core: [String; 3],
    pub epoch: Option<String>,
    pub pre: Option<(u8, String)>,
    pub post: Option<String>,
    pub dev: Option<String>,
    pub build: Vec<String>,
}
impl Canon {
    pub fn semver(&self) -> String {
        let mut ids: Vec<String> = Vec::new();
        if let Some(e) = &self.epoch {
            ids.push("epoch".into());
            ids.push(e.clone());
        }
        if let Some((l, n)) = &self.pre {
            ids.push(["alpha", "beta", "rc"][*l as usize % 3].into());
            // an empty number is a label without a number (SemVer spelling only)
            if !n.is_empty() {
                ids.push(n.clone());
            }
        }
        if let Some(p) = &self.post {
            ids.push("post".into());
            ids.push(p.clone());
        }
        if let Some(d) = &self.dev {
            ids.push("dev".into());
            ids.push(d.clone());
        }
        let mut s = self.core.join(".");
        if !ids.is_empty() {
            s.push('-');
            s.push_str(&ids.join("."));
        }
        if !self.build.is_empty() {
            s.push('+');
            s.push_str(&self.build.join("."));
        }
        s
    }
    pub fn pep440(&self) -> String {
        let mut s = String::new();
        if let Some(e) = &self.epoch {
            s.push_str(e);
            s.push('!');
        }
        s.push_str(&self.core.join("."));
        if let Some((l, n)) = &self.pre {
            s.push_str(["a", "b", "rc"][*l as usize % 3]);
            s.push_str(n);
        }
        if let Some(p) = &self.post {
            s.push_str(".post");
            s.push_str(p);
        }
        if let Some(d) = &self.dev {
            s.push_str(".dev");
            s.push_str(d);
        }
        if !self.build.is_empty() {
            s.push('+');
            s.push_str(&self.build.join("."));
        }
        s
    }
    fn numbers(&self) -> Vec<&String> {
        let mut v: Vec<&String> = self.core.iter().collect();
        v.extend(self.epoch.iter());
        v.extend(self.pre.iter().map(|p| &p.1));
        v.extend(self.post.iter());
        v.extend(self.dev.iter());
        v
    }
}

fn build_id() -> BoxedStrategy<String> {
    prop_oneof![
        3 => "[a-z]{1,6}",
        2 => "[a-z0-9]{0,3}[a-z][a-z0-9]{0,3}",
        2 => gens::num::u32_biased().prop_map(|n| n.to_string()),
        1 => gens::pick(&["sha", "g1a2b3c", "main", "x86", "0a", "a0", "post", "dev", "rc", "alpha"]).prop_map(String::from),
        1 => "[a-f0-9]{40,80}".prop_map(|s| if s.bytes().all(|b| b.is_ascii_digit()) { format!("a{s}") } else { s }),
        1 => "[1-9][0-9]{20,75}",
        // real-world shapes (first '-'-free piece, lower case, canonical digits)
        2 => gens::text::realistic_ident().prop_map(|s| {
            let p = s.to_ascii_lowercase().split('-').find(|p| !p.is_empty()).unwrap_or("x").to_string();
            if p.bytes().all(|b| b.is_ascii_digit()) { let t = p.trim_start_matches('0'); if t.is_empty() { "0".to_string() } else { t.to_string() } } else { p }
        }),
    ]
    .boxed()
}
fn canon(num: fn() -> BoxedStrategy<u64>) -> BoxedStrategy<Canon> {
    (
        (num(), num(), num()),
        proptest::option::weighted(0.3, num().prop_map(|n| n.max(1))),
        proptest::option::weighted(0.5, (0u8..3, num())),
        proptest::option::weighted(0.4, num()),
        proptest::option::weighted(0.4, num()),
        proptest::collection::vec(build_id(), 0..4),
    )
        .prop_map(|((a, b, c), epoch, pre, post, dev, build)| Canon {
            core: [a.to_string(), b.to_string(), c.to_string()],
            epoch: epoch.map(|n| n.to_string()),
            pre: pre.map(|(l, n)| (l, n.to_string())),
            post: post.map(|n| n.to_string()),
            dev: dev.map(|n| n.to_string()),
            build,
        })
        .boxed()
}

fn render(v: &str, from: &str, to: &str) -> cli::Run {
    cli::render(&cli::sv(&["--input-format", from, "--output-format", to, "--", v]))
}
fn must(r: cli::Run, what: &str) -> Result<String, Bad> {
    match r {
        cli::Run::Ok(s) => Ok(s),
        cli::Run::Panic(p) => Err(Bad::Fail(format!("{what}: PANIC {p}"))),
        other => Err(Bad::Fail(format!("{what}: {}", other.describe()))),
    }
}
fn rich(c: &Canon) -> bool {
    let parts = [c.epoch.is_some(), c.pre.is_some(), c.post.is_some(), c.dev.is_some(), !c.build.is_empty()].iter().filter(|b| **b).count();
    parts >= 2 || c.numbers().iter().any(|n| n.len() >= 10)
}

/// (a) (b) (c) + fixed points, numbers within u32 (PEP 440 involved)
fn check_canon32(c: &Canon, cx: &mut Cx) -> Res {
    let s = c.semver();
    let p = c.pep440();
    cx.nt_if(rich(c));
    let a = must(render(&s, "semver", "semver"), &format!("canonical {s} -> semver"))?;
    ensure!(a == s, "canonical SemVer {s:?} converts to SemVer {a:?} (should be unchanged)");
    let b = must(render(&s, "semver", "pep440"), &format!("canonical {s} -> pep440"))?;
    ensure!(b == p, "canonical SemVer {s:?} converts to PEP 440 {b:?}, expected {p:?}");
    let back = must(render(&b, "pep440", "semver"), &format!("{b} -> semver"))?;
    ensure!(back == s, "{s:?} -> PEP 440 {b:?} -> SemVer {back:?}: not the original");
    // fixed points
    let pp = must(render(&b, "pep440", "pep440"), &format!("{b} -> pep440"))?;
    ensure!(pp == b, "PEP 440 rendering {b:?} is not a fixed point: re-converts to {pp:?}");
    let ss = must(render(&back, "semver", "semver"), &format!("{back} -> semver"))?;
    ensure!(ss == back, "SemVer rendering {back:?} is not a fixed point: re-converts to {ss:?}");
    // auto-detection gives the same answers on canonical shapes
    let auto = must(render(&s, "auto", "pep440"), &format!("{s} (auto) -> pep440"))?;
    ensure!(auto == p, "auto-detected {s:?} converts to PEP 440 {auto:?}, expected {p:?}");
    cx.note(|| format!("{s} <-> {p}"));
    Ok(())
}
/// SemVer-only path, numbers up to u64
fn check_canon64(c: &Canon, cx: &mut Cx) -> Res {
    let s = c.semver();
    cx.nt_if(rich(c));
    let a = must(render(&s, "semver", "semver"), &format!("canonical {s} -> semver"))?;
    ensure!(a == s, "canonical SemVer {s:?} converts to SemVer {a:?} (should be unchanged)");
    // the default input format (auto-detection) reads a canonical SemVer string as SemVer
    let au = must(render(&s, "auto", "semver"), &format!("canonical {s} (auto) -> semver"))?;
    ensure!(au == s, "canonical SemVer {s:?}, input format auto, converts to SemVer {au:?} (should be unchanged)");
    // build identifiers are free text in SemVer: letter case survives (the statement's `+ids`)
    if let Some((body, build)) = s.split_once('+')
        && build.bytes().any(|b| b.is_ascii_lowercase())
    {
        let up: String = build.char_indices().map(|(i, ch)| if i % 2 == 0 { ch.to_ascii_uppercase() } else { ch }).collect();
        let su = format!("{body}+{up}");
        for from in ["semver", "auto"] {
            let r = must(render(&su, from, "semver"), &format!("canonical {su} ({from}) -> semver"))?;
            ensure!(r == su, "canonical SemVer {su:?}, input format {from}, converts to SemVer {r:?} (should be unchanged)");
        }
        cx.label("mixed-case-build");
    }
    cx.note(|| s.to_string());
    Ok(())
}

/// (d) + (e): any accepted PEP 440 string
fn check_pep(c: &(PepV, Spelling), cx: &mut Cx) -> Res {
    let (v, sp) = c;
    let s = gens::pep::spell(v, sp, false);
    let o = opep::parse(&s).ok_or_else(|| Bad::Fail(format!("harness bug: oracle rejects generated {s:?}")))?;
    cx.nt_if(s != opep::normal_form(&o) || v.pre.is_some() as u8 + v.post.is_some() as u8 + v.dev.is_some() as u8 + v.local.is_some() as u8 >= 2);
    cx.label_if(v.release.len() > 3, "release>3");
    let p1 = must(render(&s, "pep440", "pep440"), &format!("{s} -> pep440"))?;
    let o1 = opep::parse(&p1).ok_or_else(|| Bad::Fail(format!("PEP 440 rendering {p1:?} of {s:?} is not PEP 440")))?;
    ensure!(opep::cmp(&o, &o1) == std::cmp::Ordering::Equal, "{s:?} renders to PEP 440 {p1:?}, which is a different version");
    let p2 = must(render(&p1, "pep440", "pep440"), &format!("{p1} -> pep440"))?;
    ensure!(p2 == p1, "PEP 440 rendering {p1:?} (of {s:?}) is not a fixed point: re-converts to {p2:?}");
    let s1 = must(render(&s, "pep440", "semver"), &format!("{s} -> semver"))?;
    ensure!(osem::parse(&s1).is_some(), "SemVer rendering {s1:?} of {s:?} is not SemVer");
    let s2 = must(render(&s1, "semver", "semver"), &format!("{s1} -> semver"))?;
    ensure!(s2 == s1, "SemVer rendering {s1:?} of PEP 440 {s:?} is not a fixed point: re-converts to {s2:?}");
    cx.note(|| format!("{s} -> {p1} / {s1}"));
    if v.release.len() <= 3 {
        let q = must(render(&s1, "semver", "pep440"), &format!("{s1} -> pep440"))?;
        let oq = opep::parse(&q).ok_or_else(|| Bad::Fail(format!("{q:?} is not PEP 440")))?;
        ensure!(opep::cmp(&o, &oq) == std::cmp::Ordering::Equal && o.local == oq.local, "PEP 440 {s:?} -> SemVer {s1:?} -> PEP 440 {q:?}: not an equal version");
    }
    Ok(())
}

/// (e) for arbitrary accepted SemVer strings rendered to PEP 440
fn check_sem_fixed(s: &String, cx: &mut Cx) -> Res {
    let Some(sem) = osem::parse_v(s) else { return Ok(()) };
    if !osem::all_numbers_fit_u64(&sem) {
        return Ok(());
    }
    cx.nt_if(sem.pre.is_some() || sem.build.is_some());
    let p = match render(s, "semver", "pep440") {
        cli::Run::Ok(p) => p,
        cli::Run::Panic(m) => return fail(format!("rendering {s:?} to PEP 440 panicked: {m}")),
        // a SemVer that has no PEP 440 rendering may be refused, it must not be mis-rendered
        _ => return Ok(()),
    };
    ensure!(opep::parse(&p).is_some_and(|o| opep::normal_form(&o) == p), "PEP 440 rendering {p:?} of SemVer {s:?} is not a normalised PEP 440 version");
    let p2 = must(render(&p, "pep440", "pep440"), &format!("{p} -> pep440"))?;
    ensure!(p2 == p, "PEP 440 rendering {p:?} of SemVer {s:?} is not a fixed point: re-converts to {p2:?}");
    cx.note(|| format!("{s} -> {p}"));
    Ok(())
}

#[derive(Debug, Clone, Hash, Serialize, Deserialize)]
pub struct BigCase {
    pub c: Canon,
    pub field: u8, // 0..2 core, 3 epoch, 4 pre, 5 post, 6 dev
    pub big: String,
    pub from_pep: bool,
    pub to_pep: bool,
}
/// F12b: a number above u32 reaches PEP 440 rendering and is silently dropped / replaced
pub fn f12b_applies(c: &BigCase) -> bool {
    !c.from_pep && c.to_pep && osem::fits_u64(&c.big) && !osem::fits_u32(&c.big)
}
/// (f) one numeric field out of range: error, or the same value in its place
fn check_big(c: &BigCase, cx: &mut Cx) -> Res {
    let mut v = c.c.clone();
    match c.field % 7 {
        f @ 0..=2 => v.core[f as usize] = c.big.clone(),
        3 => v.epoch = Some(c.big.clone()),
        4 => v.pre = Some((v.pre.as_ref().map(|p| p.0).unwrap_or(1), c.big.clone())),
        5 => v.post = Some(c.big.clone()),
        _ => v.dev = Some(c.big.clone()),
    }
    let (input, from) = if c.from_pep { (v.pep440(), "pep440") } else { (v.semver(), "semver") };
    let to = if c.to_pep { "pep440" } else { "semver" };
    cx.nt();
    cx.label(if osem::fits_u64(&c.big) { "between-u32-and-u64" } else { "above-u64" });
    let out = match render(&input, from, to) {
        cli::Run::Ok(o) => o,
        cli::Run::Panic(m) => return fail(format!("rendering {input:?} ({from} -> {to}) panicked: {m}")),
        _ => {
            cx.note(|| format!("{input} ({from}->{to}): rejected"));
            return Ok(());
        }
    };
    cx.note(|| format!("{input} ({from}->{to}) -> {out}"));
    let want = if c.to_pep { v.pep440() } else { v.semver() };
    if out != want {
        let msg = format!("{input:?} ({from} -> {to}) gives {out:?}: the out-of-range number {} was not preserved (expected {want:?} or an error)", c.big);
        if f12b_applies(c) {
            return Err(Bad::Known("F12b", msg));
        }
        return fail(msg);
    }
    Ok(())
}

pub fn property() -> Property {
    let c32 = RandomSub::<Canon>::new("canon-roundtrip", (40_000, 1_000_000), |_| canon(gens::num::u32_biased), check_canon32).floor(0.3);
    let c64 = RandomSub::<Canon>::new("canon-semver-u64", (20_000, 400_000), |_| canon(gens::num::u64_biased), check_canon64).floor(0.3);
    let pep = RandomSub::<(PepV, Spelling)>::new("pep-roundtrip", (40_000, 1_000_000), |_| (gens::pep::pepv(5), gens::pep::spelling()).boxed(), check_pep).floor(0.3);
    let sem = RandomSub::<String>::new(
        "semver-to-pep-fixed",
        (40_000, 1_000_000),
        |_| {
            // identifier soup biased to the secondary labels, repeated labels, numbers after labels
            let id = prop_oneof![
                4 => gens::pick(&["alpha", "beta", "rc", "post", "dev", "epoch", "a", "b", "c", "pre", "preview", "ALPHA", "Post", "x", "build"]).prop_map(String::from),
                3 => gens::num::u32_biased().prop_map(|n| n.to_string()),
                1 => "[0-9A-Za-z-]{0,3}[A-Za-z-][0-9A-Za-z-]{0,3}",
            ];
            (0u64..5, 0u64..5, gens::num::u32_biased(), proptest::collection::vec(id, 0..7), proptest::collection::vec(build_id(), 0..3))
                .prop_map(|(a, b, c, pre, build)| {
                    let mut s = format!("{a}.{b}.{c}");
                    if !pre.is_empty() {
                        s.push('-');
                        s.push_str(&pre.join("."));
                    }
                    if !build.is_empty() {
                        s.push('+');
                        s.push_str(&build.join("."));
                    }
                    s
                })
                .boxed()
        },
        check_sem_fixed,
    )
    .floor(0.3);
    let big = RandomSub::<BigCase>::new(
        "out-of-range",
        (20_000, 400_000),
        |_| {
            (
                canon(gens::num::u32_biased),
                0u8..7,
                prop_oneof![
                    3 => (4294967296u64..=u64::MAX).prop_map(|n| n.to_string()),
                    2 => gens::pick(&["4294967296", "4294967297", "5000000000", "18446744073709551615", "18446744073709551616", "99999999999999999999"]).prop_map(String::from),
                    2 => "[1-9][0-9]{19,24}",
                ],
                any::<bool>(),
                any::<bool>(),
            )
                .prop_map(|(c, field, big, from_pep, to_pep)| BigCase { c, field, big, from_pep, to_pep })
                .boxed()
        },
        check_big,
    );
    let l2 = RandomSub::<(Canon, bool)>::new(
        "cli-render",
        (300, 5_000),
        |_| (canon(gens::num::u32_biased), any::<bool>()).boxed(),
        |(c, to_pep), cx| {
            let s = c.semver();
            let to = if *to_pep { "pep440" } else { "semver" };
            let o = proc::zerv(&["render", "--input-format", "semver", "--output-format", to, &s], None);
            if o.timed_out {
                infra("zerv render timed out");
                return Ok(());
            }
            cx.nt_if(rich(c));
            let want = if *to_pep { c.pep440() } else { s.clone() };
            ensure!(o.code == Some(0) && o.out_str() == format!("{want}\n"), "binary: render {s} -> {to} printed {:?} (exit {:?}), expected {want:?}", o.out_str(), o.code);
            Ok(())
        },
    )
    .shrink_iters(200);
    Property {
        id: "C07",
        rule: "cases = canonical-shape SemVer versions (numbers to u32::MAX where PEP 440 is involved, to u64::MAX on SemVer-only paths), every spelling of PEP 440 versions, SemVer identifier soups biased to secondary labels, canonical versions with one number out of range (2^32 .. 10^25). Oracle: round-trips and fixed points through `zerv render` plus the expected PEP 440 shape computed by the harness and the independent PEP 440 comparator for 'equal version'. Non-trivial = version with >=2 of {epoch, pre, post, dev, build} or a number with >=10 digits or a non-normal spelling; every out-of-range case; distinct = distinct cases.",
        assumptions: vec![
            "a SemVer string may have no PEP 440 rendering and be refused; only produced renderings are judged by the fixed-point clause",
            "out-of-range: an error, or the same digits in the same field, are both accepted",
        ],
        subs: vec![c32.boxed(), c64.boxed(), pep.boxed(), sem.boxed(), big.boxed(), l2.boxed()],
        known_repro: vec![(
            "F12b",
            "out-of-range",
            serde_json::json!({"c": {"core": ["1", "2", "3"], "epoch": null, "pre": [0, "1"], "post": null, "dev": null, "build": []}, "field": 4, "big": "5000000000", "from_pep": false, "to_pep": true}),
        )],
    }
}
