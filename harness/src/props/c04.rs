//! C04 — flow derives pre-release, post and dev parts from the documented branch rules (DESIGN.md §6 C04).
use crate::cli;
use crate::gens;
use crate::gens::flags::{self, Flag};
use crate::model::*;
use crate::oracle::flow::{self as oflow, Number, Rule, TagVars};
use crate::props::c07::Canon;
use crate::runner::*;
use proptest::prelude::*;
use serde::{Deserialize, Serialize};
use std::str::FromStr;

pub const STD_SCHEMAS: [&str; 11] = [
    "standard", "standard-no-context", "standard-context", "standard-base", "standard-base-context", "standard-base-prerelease",
    "standard-base-prerelease-context", "standard-base-prerelease-post", "standard-base-prerelease-post-context",
    "standard-base-prerelease-post-dev", "standard-base-prerelease-post-dev-context",
];

#[derive(Debug, Clone, Hash, Serialize, Deserialize)]
pub struct Case {
    pub tag: Canon,
    pub via_stdin: bool,
    pub branch: Option<String>,
    pub distance: Option<u64>,
    pub dirt: u8, // 0 unset, 1 dirty, 2 explicitly not dirty, 3 --clean (source none only)
    pub post_flag: Option<u64>,
    pub label_flag: Option<u8>,
    pub num_flag: Option<u64>,
    pub post_mode_flag: Option<bool>, // Some(true) = tag
    pub hash_len: Option<u32>,
    pub rules: Option<Vec<Rule>>,
    pub schema: Option<usize>,
}

fn tag_vars(k: &Canon) -> TagVars {
    let n = |s: &String| s.parse::<u64>().unwrap_or(0);
    TagVars {
        epoch: k.epoch.as_ref().map(n),
        major: n(&k.core[0]),
        minor: n(&k.core[1]),
        patch: n(&k.core[2]),
        pre: k.pre.as_ref().map(|(l, x)| (*l, Some(n(x)))),
        post: k.post.as_ref().map(n),
        dev: k.dev.as_ref().map(n),
    }
}

pub fn build_argv(c: &Case) -> (Vec<String>, Option<String>) {
    let mut f: Vec<Flag> = Vec::new();
    let mut stdin = None;
    if c.via_stdin {
        let t = tag_vars(&c.tag);
        let z = MZerv {
            schema: MSchema { core: vec![MComp::Var(MVar::Major), MComp::Var(MVar::Minor), MComp::Var(MVar::Patch)], ..Default::default() },
            vars: MVars {
                major: Some(t.major), minor: Some(t.minor), patch: Some(t.patch), epoch: t.epoch, pre_release: t.pre, post: t.post, dev: t.dev,
                distance: c.distance,
                dirty: match c.dirt { 1 => Some(true), 2 | 3 => Some(false), _ => None },
                bumped_branch: c.branch.clone(),
                last_tag_version: Some(c.tag.semver()),
                ..Default::default()
            },
        };
        // every third stdin case: the document is one an earlier stage has bumped away from its tag
        // (major + 1, a stale post), and the tag is given again with --tag-version: the override
        // sets every version field, so flow starts from the tag all the same
        let restated = c.hash_len.unwrap_or(0) % 3 == 1 && t.major < 4_000_000_000;
        let z = if restated {
            let mut z2 = z.clone();
            z2.vars.major = Some(t.major + 1);
            z2.vars.post = Some(z2.vars.post.unwrap_or(0).min(4_000_000_000) + 3);
            // half of them were detected from another tag than the one now given: the distance and
            // the dirty state are facts of the checkout and stay what the document says
            if c.hash_len.unwrap_or(0) % 2 == 0 {
                z2.vars.last_tag_version = Some("0.0.1-rc.9.post.1".into());
            }
            z2
        } else {
            z
        };
        stdin = z.to_zerv().ok().map(|z| z.to_string());
        f.push(Flag::v("source", "stdin"));
        if restated {
            f.push(Flag::v("tag-version", c.tag.semver()));
            f.push(Flag::v("input-format", "semver"));
        }
    } else {
        f.push(Flag::v("source", "none"));
        f.push(Flag::v("tag-version", c.tag.semver()));
        f.push(Flag::v("input-format", "semver"));
        if let Some(b) = &c.branch {
            f.push(Flag::v("bumped-branch", b));
        }
        if let Some(d) = c.distance
            && c.dirt != 3
        {
            f.push(Flag::v("distance", d));
        }
        match c.dirt {
            1 => f.push(Flag::b("dirty")),
            2 => f.push(Flag::b("no-dirty")),
            3 => f.push(Flag::b("clean")),
            _ => {}
        }
    }
    if let Some(p) = c.post_flag {
        f.push(Flag::v("post", p));
    }
    if let Some(l) = c.label_flag {
        f.push(Flag::v("pre-release-label", LABELS[l as usize % 3]));
    }
    if let Some(n) = c.num_flag {
        f.push(Flag::v("pre-release-num", n));
    }
    if let Some(m) = c.post_mode_flag {
        f.push(Flag::v("post-mode", if m { "tag" } else { "commit" }));
    }
    if let Some(l) = c.hash_len {
        f.push(Flag::v("hash-branch-len", l));
    }
    if let Some(r) = &c.rules {
        f.push(Flag::v("branch-rules", oflow::rules_ron(r)));
    }
    if let Some(s) = c.schema {
        f.push(Flag::v("schema", STD_SCHEMAS[s % STD_SCHEMAS.len()]));
    }
    f.push(Flag::v("output-format", "zerv"));
    (flags::to_argv(&f), stdin)
}

/// value of `hash_int(value=<branch>, length=L)` rendered by zerv in an unrelated object
pub fn template_hash(branch: Option<&str>, len: u32) -> Result<String, String> {
    let mut a = cli::sv(&["--source", "none", "--tag-version", "9.9.9"]);
    if let Some(b) = branch {
        a.push(format!("--bumped-branch={b}"));
    }
    a.push(format!("--output-template=<<{{{{ hash_int(value=bumped_branch, length={len}) }}}}>>"));
    match cli::version(&a, None) {
        cli::Run::Ok(s) => s.strip_prefix("<<").and_then(|s| s.strip_suffix(">>")).map(String::from).ok_or(format!("sentinels lost: {s:?}")),
        other => Err(other.describe()),
    }
}

fn now() -> u64 {
    std::time::SystemTime::now().duration_since(std::time::UNIX_EPOCH).unwrap().as_secs()
}

fn check_case(c: &Case, cx: &mut Cx) -> Res {
    let (argv, stdin) = build_argv(c);
    if c.via_stdin && stdin.is_none() {
        return fail("harness bug: stdin object invalid");
    }
    let rules = c.rules.clone().unwrap_or_else(oflow::default_rules);
    let rules_ok = rules.iter().all(oflow::rule_valid);
    let len = c.hash_len.unwrap_or(5);
    let t0 = now();
    let run = cli::flow(&argv, stdin.as_deref());
    let t1 = now();
    cx.note(|| format!("{argv:?} -> {}", run.describe().chars().take(160).collect::<String>()));
    if let cli::Run::Panic(p) = &run {
        return fail(format!("flow panicked on {argv:?}: {p}"));
    }
    if !rules_ok {
        cx.nt();
        cx.label("invalid-rule-set");
        ensure!(!run.is_ok(), "invalid branch rule set accepted: {argv:?}");
        return Ok(());
    }
    if !(1..=10).contains(&len) {
        cx.nt();
        cx.label("invalid-hash-len");
        ensure!(!run.is_ok(), "--hash-branch-len {len} outside 1..10 accepted: {argv:?}");
        return Ok(());
    }
    let tag = tag_vars(&c.tag);
    let dirty = c.dirt == 1;
    let distance = if c.dirt == 3 && !c.via_stdin { None } else { c.distance };
    let r = oflow::resolve(&rules, c.branch.as_deref(), c.label_flag, c.num_flag, c.post_mode_flag);
    let exp = match oflow::expect(&tag, &r, distance, dirty, c.post_flag) {
        Ok(e) => e,
        Err(_) => return Ok(()), // u64 overflow in the expected sum: out of scope here
    };
    cx.nt_if(exp.active && (r.decided_by_specific_rule || matches!(r.number, Number::Hash) || c.num_flag.is_none() && matches!(r.number, Number::Value(_)) && r.decided_by_specific_rule));
    cx.label_if(exp.active, "active");
    cx.label_if(r.tag_mode, "tag-mode");
    cx.label_if(matches!(r.number, Number::Hash), "hash-number");
    cx.label_if(c.via_stdin, "stdin");
    cx.label_if(c.rules.is_some(), "custom-rules");

    let out = match &run {
        cli::Run::Ok(o) => o.clone(),
        other => {
            let msg = other.describe();
            if exp.active {
                // F13: a 10-digit hash that does not fit u32
                if len == 10 && matches!(r.number, Number::Hash) && msg.contains("number too large") {
                    let h = template_hash(c.branch.as_deref(), 10).unwrap_or_default();
                    if h.parse::<u64>().is_ok_and(|v| v > u32::MAX as u64) {
                        return Err(Bad::Known("F13", format!("--hash-branch-len 10 fails for branch {:?} (hash {h}): {msg}", c.branch)));
                    }
                }
                if matches!(r.number, Number::TooBigSegment) {
                    cx.label("too-big-segment-rejected");
                    return Ok(());
                }
                // numbers that do not fit u32 in explicit flags are a documented CLI limit
            }
            return fail(format!("flow failed on valid input {argv:?}: {msg}"));
        }
    };
    let z = zerv::version::Zerv::from_str(&out).map_err(|e| Bad::Fail(format!("flow output does not parse: {e}")))?;
    let v = MVars::from_zerv(&z.vars);
    let ctx = format!("{argv:?}");
    ensure!(v.epoch == exp.epoch.filter(|e| *e > 0) && v.major == Some(exp.major) && v.minor == Some(exp.minor), "epoch/major/minor changed: {:?}/{:?}/{:?} for {ctx}", v.epoch, v.major, v.minor);
    ensure!(v.patch == Some(exp.patch), "patch = {:?}, expected {} (tag pre-release: {:?}, active: {}) for {ctx}", v.patch, exp.patch, tag.pre, exp.active);
    if !exp.active {
        ensure!(Some(v.pre_release) == exp.pre_unchanged, "clean at tag but pre-release changed to {:?} for {ctx}", v.pre_release);
        ensure!(v.post == exp.post, "clean at tag but post = {:?}, expected {:?} for {ctx}", v.post, exp.post);
        ensure!(Some(v.dev) == exp.dev_unchanged, "clean at tag but dev = {:?} for {ctx}", v.dev);
        return Ok(());
    }
    // a name that is exactly `prefix/` cannot be a git branch; whether it is "under prefix/" is not stated
    if c.branch.as_deref().is_some_and(|b| b.ends_with('/') && rules.iter().any(|r| r.pattern.strip_suffix('*') == Some(b))) {
        cx.label("ambiguous-trailing-slash");
        return Ok(());
    }
    let (label, number) = exp.pre.clone().unwrap();
    let Some((gl, gn)) = v.pre_release else { return fail(format!("no pre-release in an active state for {ctx}")) };
    ensure!(gl == label, "pre-release label {} but rules/flags say {} for branch {:?} ({ctx})", LABELS[gl as usize], LABELS[label as usize], c.branch);
    match number {
        Number::Value(n) => ensure!(gn == Some(n), "pre-release number {gn:?}, expected {n} for branch {:?} ({ctx})", c.branch),
        Number::Hash | Number::TooBigSegment => {
            let h = template_hash(c.branch.as_deref(), len).map_err(|e| Bad::Fail(format!("hash_int template failed: {e}")))?;
            ensure!(!h.is_empty() && h.len() <= len as usize && h.bytes().all(|b| b.is_ascii_digit()) && (h == "0" || !h.starts_with('0')), "hash_int(length={len}) = {h:?} violates its contract");
            ensure!(gn.map(|n| n.to_string()) == Some(h.clone()), "pre-release number {gn:?} is not the branch hash {h} of {:?} with length {len} ({ctx})", c.branch);
        }
    }
    if exp.post_zero_or_absent {
        ensure!(v.post.unwrap_or(0) == 0, "post = {:?}, expected 0/absent ({ctx})", v.post);
    } else {
        ensure!(v.post == exp.post, "post = {:?}, expected {:?} (tag post {:?}, --post {:?}, distance {:?}, tag mode {}) for {ctx}", v.post, exp.post, tag.post, c.post_flag, distance, r.tag_mode);
    }
    if exp.dev_expected {
        ensure!(v.dev.is_some_and(|d| d >= t0 && d <= t1), "dev = {:?}, expected a wall-clock timestamp in [{t0},{t1}] ({ctx})", v.dev);
    } else {
        ensure!(v.dev.is_none(), "dev = {:?} although not dirty{} ({ctx})", v.dev, if r.tag_mode { "/ahead" } else { "" });
    }
    // the derived parts are also what gets PRINTED: with a schema that adapts to the state
    // (no --schema, standard, standard-no-context, standard-context) or that has all three slots,
    // pre-release, post and dev of the variables show up in the SemVer output
    let schema_name = c.schema.map(|s| STD_SCHEMAS[s % STD_SCHEMAS.len()]);
    // (without --schema a stdin object keeps its own schema, which need not have the slots)
    if (schema_name.is_none() && !c.via_stdin) || matches!(schema_name, Some("standard") | Some("standard-no-context") | Some("standard-context") | Some("standard-base-prerelease-post-dev") | Some("standard-base-prerelease-post-dev-context")) {
        let mut a: Vec<String> = argv.iter().filter(|x| !x.starts_with("--output-format")).cloned().collect();
        a.push("--output-format=semver".into());
        if let cli::Run::Ok(text) = cli::flow(&a, stdin.as_deref()) {
            let pre_part = text.split('+').next().unwrap_or("").split_once('-').map(|x| x.1.to_string()).unwrap_or_default();
            let ids: Vec<&str> = pre_part.split('.').collect();
            cx.label("printed-parts-checked");
            // (an explicit --dirty / --no-dirty / --clean decides the tier of an adapting schema
            //  by itself - C06 - so dev is only required to be printed without such a flag)
            if v.dev.is_some() && c.dirt == 0 {
                ensure!(ids.contains(&"dev"), "flow derives dev = {:?} but prints {text:?} without a dev part (schema {schema_name:?}; {ctx})", v.dev);
            }
            if v.post.is_some() {
                ensure!(ids.contains(&"post"), "flow derives post = {:?} but prints {text:?} without a post part (schema {schema_name:?}; {ctx})", v.post);
            }
            ensure!(ids.contains(&LABELS[gl as usize]), "flow derives the pre-release label {} but prints {text:?} (schema {schema_name:?}; {ctx})", LABELS[gl as usize]);
        }
    }
    Ok(())
}

pub fn branch_shapes() -> BoxedStrategy<String> {
    prop_oneof![
        3 => gens::pick(&["develop", "main", "master", "release/1", "release/2/x", "release/x/3", "release/", "release", "releasenotes", "release-1", "release1/2",
            "feature/x", "feature/12/y", "feature/007", "hotfix/99999999999", "hotfix/4294967295", "hotfix/4294967296", "x", "y", "z", "123", "0", "a/0/1", "develop/x", "developer",
            "rel/é/5", "é", "feature/12a/3"]).prop_map(String::from),
        2 => gens::pick(&["rel-1.0/7", "rel-110/7", "rel-1x0/7", "v1.2/3", "v1x2/3", "a+b/3", "ab/3", "aab/3", "(x)/3", "x/3", "[ab]/3", "a/3", "b/3", "x|y/3", "y/3", "r.l/3", "rel/3", "rxl/3", "rel-1.0", "rel-1x0", "a.b", "axb", "x?/3", "xx/3", "re*/3", "ree/3", "release/3"]).prop_map(String::from),
        2 => (gens::pick(&["release", "feature", "hotfix", "develop", "rel", "x"]), gens::pick(&["/", "", "-", "//", "/a/", "/1/"]), gens::text::tame()).prop_map(|(a, b, c)| format!("{a}{b}{c}")),
        2 => gens::text::nasty(),
        1 => "[a-z]{1,8}",
    ]
    .boxed()
}
pub fn rule_set() -> BoxedStrategy<Vec<Rule>> {
    let pat = prop_oneof![
        3 => gens::pick(&["release/*", "feature/*", "rel/*", "x/*", "release/1/*", "*", "a/*"]).prop_map(String::from),
        3 => gens::pick(&["develop", "main", "release", "x", "release/1", "feature/x", "123"]).prop_map(String::from),
        // patterns are literal text: nothing in them is a regular-expression or glob operator
        2 => gens::pick(&["rel-1.0/*", "v1.2/*", "a+b/*", "(x)/*", "[ab]/*", "x|y/*", "r.l/*", "rel-1.0", "a.b", "x?/*", "re*/*"]).prop_map(String::from),
    ];
    proptest::collection::vec((pat, 0u8..3, proptest::option::weighted(0.5, gens::num::u32_biased()), any::<bool>(), prop::bool::weighted(0.93)), 0..5)
        .prop_map(|v| {
            v.into_iter()
                .map(|(pattern, label, num, tag_mode, valid)| {
                    let wild = pattern == "*" || pattern.ends_with("/*");
                    let num = if valid { if wild { None } else { Some(num.unwrap_or(1)) } } else if wild { Some(num.unwrap_or(1)) } else { None };
                    Rule { pattern, label, num, tag_mode }
                })
                .collect()
        })
        .boxed()
}
pub fn tag_canon() -> BoxedStrategy<Canon> {
    let n = || prop_oneof![3 => 0u64..6, 1 => gens::num::u32_biased()];
    (
        (n(), n(), n()),
        proptest::option::weighted(0.15, 1u64..4),
        proptest::option::weighted(0.4, (0u8..3, n())),
        proptest::option::weighted(0.3, n()),
        proptest::option::weighted(0.1, n()),
    )
        .prop_map(|((a, b, c), epoch, pre, post, dev)| Canon {
            core: [a.to_string(), b.to_string(), c.to_string()],
            epoch: epoch.map(|e| e.to_string()),
            pre: pre.map(|(l, x)| (l, x.to_string())),
            post: post.map(|x| x.to_string()),
            dev: dev.map(|x| x.to_string()),
            build: vec![],
        })
        .boxed()
}
pub fn case_strategy() -> BoxedStrategy<Case> {
    (
        (tag_canon(), any::<bool>(), proptest::option::weighted(0.9, branch_shapes())),
        (proptest::option::weighted(0.8, prop_oneof![2 => Just(0u64), 4 => 1u64..20, 1 => gens::num::u32_biased()]), prop_oneof![3 => Just(0u8), 2 => Just(1), 1 => Just(2), 1 => Just(3)]),
        (
            proptest::option::weighted(0.15, gens::num::u32_biased()),
            proptest::option::weighted(0.2, 0u8..3),
            proptest::option::weighted(0.2, gens::num::u32_biased()),
            proptest::option::weighted(0.3, any::<bool>()),
        ),
        proptest::option::weighted(0.5, prop_oneof![8 => 1u32..=10, 1 => Just(0u32), 1 => 11u32..14]),
        proptest::option::weighted(0.4, rule_set()),
        proptest::option::weighted(0.5, 0usize..11),
    )
        .prop_map(|((tag, via_stdin, branch), (distance, dirt), (post_flag, label_flag, num_flag, post_mode_flag), hash_len, rules, schema)| {
            let dirt = if via_stdin && dirt == 3 { 2 } else { dirt };
            Case { tag, via_stdin, branch, distance, dirt, post_flag, label_flag, num_flag, post_mode_flag, hash_len, rules, schema }
        })
        .boxed()
}

pub fn property() -> Property {
    let model = RandomSub::<Case>::new("flow-model", (40_000, 800_000), |_| case_strategy(), check_case).floor(0.2);
    // exhaustive grid: rule pattern x branch shape x post mode
    let grid = EnumSub::<Case>::new(
        "enum-rule-grid",
        "20 rule patterns (six with regular-expression metacharacters, which are literal text) x 73 branch shapes x {commit, tag} x hash length {1,5,9}: single-rule sets followed by the `*` rule, tag 1.2.3, distance 2",
        |_tier, shard, n, visit| {
            let pats = ["release/*", "feature/*", "rel/*", "x/*", "release/1/*", "a/*", "é/*", "develop", "main", "release", "x", "release/1", "123", "feature/x", "rel-1.0/*", "a+b/*", "(x)/*", "[ab]/*", "r.l/*", "a.b"];
            let branches = [
                "develop", "main", "master", "release/1", "release/2/x", "release/x/3", "release/", "release", "releasenotes", "release-1", "release1/2", "release/1/2",
                "feature/x", "feature/12/y", "feature/007", "feature/", "featurex", "hotfix/99999999999", "hotfix/4294967295", "hotfix/4294967296", "x", "x/", "x/1", "x/y/2", "xy", "y", "z",
                "123", "0", "a/0/1", "a/", "a", "ab/1", "develop/x", "developer", "rel/é/5", "rel", "rel/", "relx", "é", "é/3", "éé/3", "feature/12a/3", "release/00", "release/01/2",
                "release//5", "/release/1", "release/1/", "x/1x/2", "X/1", "RELEASE/1", "release/1 ", " release/1", "release/-1", "release/+1", "release/1.0", "main/1", "123/4", "feature/x/y", "1/2/3",
                "rel-1.0/7", "rel-110/7", "rel-1x0/7", "a+b/3", "ab/3", "aab/3", "(x)/3", "[ab]/3", "b/3", "r.l/3", "rxl/3", "a.b", "axb",
            ];
            let mut idx = 0usize;
            for p in pats {
                for b in branches {
                    for tag_mode in [false, true] {
                        for hl in [1u32, 5, 9] {
                            if idx % n == shard {
                                let wild = p.ends_with("/*");
                                let rules = vec![
                                    Rule { pattern: p.to_string(), label: 2, num: if wild { None } else { Some(7) }, tag_mode },
                                    Rule { pattern: "*".into(), label: 0, num: None, tag_mode: false },
                                ];
                                let c = Case {
                                    tag: Canon { core: ["1".into(), "2".into(), "3".into()], epoch: None, pre: None, post: None, dev: None, build: vec![] },
                                    via_stdin: idx % 2 == 1, branch: Some(b.to_string()), distance: Some(2), dirt: 0,
                                    post_flag: None, label_flag: None, num_flag: None, post_mode_flag: None, hash_len: Some(hl), rules: Some(rules), schema: None,
                                };
                                if !visit(&c) {
                                    return;
                                }
                            }
                            idx += 1;
                        }
                    }
                }
            }
        },
        check_case,
    );
    // every documented hash length works for every branch (F13 = length 10 with a hash above u32)
    let hashlen = RandomSub::<(String, u32)>::new(
        "hash-lengths",
        (6_000, 100_000),
        |_| (prop_oneof![2 => branch_shapes(), 2 => "[a-z]{1,3}", 1 => gens::text::unicode(12)], 1u32..=10).boxed(),
        |(b, len), cx| {
            let c = Case {
                tag: Canon { core: ["0".into(), "1".into(), "0".into()], epoch: None, pre: None, post: None, dev: None, build: vec![] },
                via_stdin: false, branch: Some(b.clone()), distance: Some(1), dirt: 0, post_flag: None, label_flag: None, num_flag: None, post_mode_flag: None,
                hash_len: Some(*len), rules: Some(vec![]), schema: None,
            };
            check_case(&c, cx)?;
            cx.nt();
            // the same branch and length give the same id whatever the tag and distance
            let mut c2 = c.clone();
            c2.tag.core = ["7".into(), "0".into(), "9".into()];
            c2.distance = Some(40);
            let (a1, _) = build_argv(&c);
            let (a2, _) = build_argv(&c2);
            if let (cli::Run::Ok(o1), cli::Run::Ok(o2)) = (cli::flow(&a1, None), cli::flow(&a2, None)) {
                let n1 = zerv::version::Zerv::from_str(&o1).ok().and_then(|z| z.vars.pre_release.and_then(|p| p.number));
                let n2 = zerv::version::Zerv::from_str(&o2).ok().and_then(|z| z.vars.pre_release.and_then(|p| p.number));
                ensure!(n1 == n2, "branch id of {b:?} (length {len}) depends on tag/distance: {n1:?} vs {n2:?}");
            }
            Ok(())
        },
    )
    .floor(0.5);
    Property {
        id: "C04",
        rule: "cases = (tag in canonical shape incl. pre-release/post/epoch, branch from rule-shaped/nasty names incl. `prefix`+non-slash suffixes and numeric segments beyond u32, distance, dirty flag, --post, --pre-release-label/num, --post-mode, --hash-branch-len 0..13, generated rule sets valid and invalid) on sources none and stdin, observed as --output-format zerv vars. Oracle: reference model of the statement (oracle::flow); hash numbers judged metamorphically against `hash_int` rendered by a template in an unrelated object plus the digit-count contract; dev within the wall-clock bracket. Non-trivial = state active and (a specific rule decides, or the number comes from the hash); invalid rule sets / hash lengths; distinct = distinct cases.",
        assumptions: vec![
            "an all-digit path segment that does not fit u32 may fall back to the hash or be rejected",
            "commit mode with distance 0 and no tag post: post may be 0 or absent",
            "in tag mode the emitted `dirty` flag is forced on for ahead states (not judged)",
            "known finding F13: --hash-branch-len 10 fails when the 10-digit hash exceeds u32",
        ],
        subs: vec![model.boxed(), grid.boxed(), hashlen.boxed()],
        known_repro: vec![(
            "F13",
            "hash-lengths",
            serde_json::json!(["x", 10]),
        )],
    }
}
