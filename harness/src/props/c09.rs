//! C09 — the PEP 440 parser accepts exactly PEP 440 and prints the normal form (DESIGN.md §6 C09).
use crate::cli;
use crate::gens;
use crate::gens::pep::{PepV, Spelling};
use crate::oracle::pep440 as opep;
use crate::proc;
use crate::runner::*;
use proptest::prelude::*;
use std::str::FromStr;
use zerv::cli::{CheckArgs, run_check_command};
use zerv::version::PEP440;

const ALPHA: [&str; 26] = [
    "0", "1", "9", "a", "b", "c", "r", "p", "o", "s", "t", "d", "e", "v", "l", "w", "i", "h", ".", "-", "_", "+", "!", "ſ", "\u{212A}", "V",
];

fn near_boundary(s: &str) -> bool {
    if opep::parse(s).is_some() {
        return true;
    }
    let idx: Vec<usize> = s.char_indices().map(|(i, _)| i).collect();
    for (k, &i) in idx.iter().enumerate() {
        let j = idx.get(k + 1).copied().unwrap_or(s.len());
        let t = format!("{}{}", &s[..i], &s[j..]);
        if opep::parse(&t).is_some() {
            return true;
        }
    }
    false
}

pub fn check_one(s: &String, cx: &mut Cx) -> Res {
    let z = match no_panic(|| PEP440::from_str(s)) {
        Ok(r) => r,
        Err(p) => return fail(format!("PEP440::from_str({s:?}) panicked: {p}")),
    };
    let o = opep::parse(s);
    cx.label_if(o.is_some(), "grammar-accepts");
    cx.label_if(!s.is_ascii(), "non-ascii");
    if s.len() <= 24 {
        cx.nt_if(near_boundary(s));
    } else {
        cx.nt_if(o.is_some());
    }
    cx.note(|| format!("{s:?}: zerv={} grammar={:?}", z.as_ref().map(|v| v.to_string()).unwrap_or_else(|_| "reject".into()), o.as_ref().map(opep::normal_form)));
    match (&z, &o) {
        (Ok(v), Some(p)) => {
            let nf = opep::normal_form(p);
            let printed = match no_panic(|| v.to_string()) {
                Ok(x) => x,
                Err(e) => return fail(format!("printing parsed {s:?} panicked: {e}")),
            };
            ensure!(printed == nf, "accepted {s:?} but prints {printed:?}; PEP 440 normal form is {nf:?}");
            // idempotent, and the normal form compares equal to the original
            match PEP440::from_str(&printed) {
                Ok(v2) => {
                    ensure!(v2.to_string() == printed, "normalising is not idempotent: {s:?} -> {printed:?} -> {:?}", v2.to_string());
                    ensure!(v2 == *v && v2.cmp(v) == std::cmp::Ordering::Equal, "normal form {printed:?} does not compare equal to the original {s:?}");
                }
                Err(e) => return fail(format!("normal form {printed:?} of {s:?} is rejected: {e}")),
            }
        }
        (Ok(v), None) => return fail(format!("accepted {s:?} (prints {:?}) which is not PEP 440", v.to_string())),
        (Err(_), Some(p)) => {
            if opep::numbers_fit_u32(p) && opep::local_numbers_fit_u32(p) {
                return fail(format!("rejected valid PEP 440 version {s:?}"));
            }
            cx.label("range-reject");
        }
        (Err(_), None) => {}
    }
    let c = no_panic(|| run_check_command(CheckArgs { version: s.clone(), format: Some("pep440".into()) }));
    match c {
        Err(p) => return fail(format!("check panicked on {s:?}: {p}")),
        Ok(r) => {
            ensure!(r.is_ok() == z.is_ok(), "check --format pep440 verdict {} differs from parser verdict {} on {s:?}", r.is_ok(), z.is_ok());
            if let (Ok(text), Some(p)) = (r, &o) {
                let nf = opep::normal_form(p);
                let want = if nf == *s { format!("Version: {s}\n✓ Valid PEP440 format") } else { format!("Version: {s}\n✓ Valid PEP440 format (normalized: {nf})") };
                ensure!(text == want.trim_end(), "check report {text:?} != {want:?}");
            }
        }
    }
    Ok(())
}

fn odometer(prefix: &'static str, max_len: usize, shard: usize, n: usize, visit: &mut dyn FnMut(&String) -> bool) {
    let mut idx = 0usize;
    for len in 0..=max_len {
        let total = ALPHA.len().pow(len as u32);
        for k in 0..total {
            if idx % n == shard {
                let mut s = String::from(prefix);
                let mut x = k;
                for _ in 0..len {
                    s.push_str(ALPHA[x % ALPHA.len()]);
                    x /= ALPHA.len();
                }
                if !visit(&s) {
                    return;
                }
            }
            idx += 1;
        }
    }
}

/// a valid version in some spelling, with numbers possibly beyond u32
pub fn spelled() -> BoxedStrategy<String> {
    (gens::pep::pepv(5), gens::pep::spelling(), any::<bool>(), proptest::option::weighted(0.15, (0usize..8, gens::num::digits_any())))
        .prop_map(|(p, sp, ext, big)| {
            let s = gens::pep::spell(&p, &sp, ext);
            match big {
                // replace the k-th digit run by a (possibly huge) number
                Some((k, d)) => replace_digit_run(&s, k, &d),
                None => s,
            }
        })
        .boxed()
}
fn replace_digit_run(s: &str, k: usize, d: &str) -> String {
    let b = s.as_bytes();
    let mut runs = Vec::new();
    let mut i = 0;
    while i < b.len() {
        if b[i].is_ascii_digit() {
            let st = i;
            while i < b.len() && b[i].is_ascii_digit() {
                i += 1;
            }
            runs.push((st, i));
        } else {
            i += 1;
        }
    }
    if runs.is_empty() {
        return s.to_string();
    }
    let (st, en) = runs[k % runs.len()];
    format!("{}{}{}", &s[..st], d, &s[en..])
}
const MUT_SYMS: &[&str] = &["0", "1", "a", "b", "c", "r", "post", "dev", "rc", ".", "-", "_", "+", "!", "v", "V", " ", "ſ", "\u{212A}", "é", "٣", "\n", "..", "x", "e"];
pub fn mutate(base: BoxedStrategy<String>) -> BoxedStrategy<String> {
    (base, 0usize..4, any::<prop::sample::Index>(), gens::pick(MUT_SYMS))
        .prop_map(|(s, op, at, sym)| {
            let idx: Vec<usize> = s.char_indices().map(|(i, _)| i).chain([s.len()]).collect();
            let i = idx[at.index(idx.len())];
            let next = s[i..].chars().next().map(|c| i + c.len_utf8()).unwrap_or(s.len());
            match op {
                0 => format!("{}{}{}", &s[..i], sym, &s[i..]),
                1 => format!("{}{}", &s[..i], &s[next..]),
                2 => format!("{}{}{}", &s[..i], sym, &s[next..]),
                _ => format!("{}{}{}", &s[..next], &s[i..next], &s[next..]),
            }
        })
        .boxed()
}

/// the structured generator and the oracle agree on what was generated (guards the generator)

/// `zerv check --format pep440` in-process: verdict and reported normal form against the
/// independent oracle (the report must say "normalized" exactly when the input is not its own
/// normal form)
fn check_report(s: &String, cx: &mut Cx) -> Res {
    let want = opep::parse(s).map(|p| (opep::numbers_fit_u32(&p), opep::normal_form(&p)));
    let r = cli::check(&cli::sv(&["--format", "pep440", "--", s]));
    cx.note(|| format!("{s:?} -> {}", r.describe().chars().take(100).collect::<String>()));
    match (&r, &want) {
        (cli::Run::Panic(p), _) => fail(format!("zerv check panicked on {s:?}: {p}")),
        (cli::Run::Ok(t), Some((_, nf))) => {
            cx.nt_if(nf != s);
            cx.label(if nf == s { "already-normal" } else { "not-normal" });
            let expect = if nf == s { format!("Version: {s}\n✓ Valid PEP440 format") } else { format!("Version: {s}\n✓ Valid PEP440 format (normalized: {nf})") };
            ensure!(t.trim_end() == expect, "zerv check reports {:?} for {s:?}; the PEP 440 normal form is {nf:?}, so the report should be {expect:?}", t.trim_end());
            Ok(())
        }
        (cli::Run::Ok(t), None) => fail(format!("zerv check accepts {s:?}, which is not PEP 440: {t:?}")),
        (_, Some((true, _))) => fail(format!("zerv check rejects the valid PEP 440 version {s:?}: {}", r.describe())),
        _ => Ok(()),
    }
}

fn check_structured(c: &(PepV, Spelling, bool), cx: &mut Cx) -> Res {
    let (p, sp, ext) = c;
    let s = gens::pep::spell(p, sp, *ext);
    let nf_expected = if *ext && sp.trailing_zero_release > 0 {
        let mut q = p.clone();
        for _ in 0..sp.trailing_zero_release {
            q.release.push(0);
        }
        q.normal()
    } else {
        p.normal()
    };
    let o = opep::parse(&s).ok_or_else(|| Bad::Fail(format!("harness bug: generated spelling {s:?} of {nf_expected:?} is rejected by the oracle")))?;
    ensure!(opep::normal_form(&o) == nf_expected, "harness bug: oracle normal form {:?} != generator's {nf_expected:?} for {s:?}", opep::normal_form(&o));
    cx.nt_if(s != nf_expected);
    let z = PEP440::from_str(&s).map_err(|e| Bad::Fail(format!("rejected valid spelling {s:?} of {nf_expected}: {e}")))?;
    cx.note(|| format!("{s:?} -> {}", z));
    ensure!(z.to_string() == nf_expected, "spelling {s:?} prints {:?}, normal form is {nf_expected:?}", z.to_string());
    Ok(())
}

pub fn property() -> Property {
    let e1 = EnumSub::<String>::new(
        "enum-short",
        "every string of length <=4 (quick) / <=5 (thorough) over the 26 symbols {0 1 9 a b c r p o s t d e v l w i h . - _ + ! ſ K(U+212A) V}",
        |tier, shard, n, visit| odometer("", tier.pick(4, 5), shard, n, visit),
        check_one,
    );
    let e2 = EnumSub::<String>::new(
        "enum-suffix",
        "\"1.0\" + every suffix of length <=4 (quick) / <=5 (thorough) over the same 26 symbols",
        |tier, shard, n, visit| odometer("1.0", tier.pick(4, 5), shard, n, visit),
        check_one,
    );
    let r0 = RandomSub::<(PepV, Spelling, bool)>::new(
        "spellings",
        (40_000, 1_000_000),
        |_| (gens::pep::pepv(5), gens::pep::spelling(), any::<bool>()).boxed(),
        check_structured,
    )
    .floor(0.5);
    let r1 = RandomSub::<String>::new(
        "grammar-mutants",
        (60_000, 1_500_000),
        |_| prop_oneof![4 => spelled(), 6 => mutate(spelled()), 2 => mutate(mutate(spelled())), 1 => crate::props::c08::calver_like()].boxed(),
        check_one,
    )
    .floor(0.3);
    let r2 = RandomSub::<String>::new(
        "unicode-random",
        (30_000, 600_000),
        |_| prop_oneof![2 => gens::text::unicode(24), 2 => gens::text::nasty(), 1 => ("[0-9]{1,3}(\\.[0-9]{1,3}){0,2}", gens::text::unicode(10)).prop_map(|(a, b)| a + &b)].boxed(),
        check_one,
    );
    let long = RandomSub::<String>::new(
        "long-lookalike",
        (30_000, 600_000),
        |_| {
            (spelled(), gens::pick(&[0usize, 40, 65, 70, 100, 129, 200, 260, 520]), any::<u64>(), prop::bool::weighted(0.7))
                .prop_map(|(s, min_len, pick, disguise)| {
                    let joiner = if s.contains('+') { "." } else { "+" };
                    gens::text::lengthen_and_disguise(&s, joiner, min_len, &["ubuntu", "22", "04", "lts", "Kernel", "6", "18", "build", "7", "sha", "abc123", "Release", "x86", "64", "musl", "k8s", "SKU", "Iso"], pick, disguise).0
                })
                .boxed()
        },
        |s, cx| {
            cx.label_if(s.len() > 64, ">64-bytes");
            cx.label_if(!s.is_ascii(), "disguised");
            check_one(s, cx)?;
            cx.nt_if(s.len() > 64);
            Ok(())
        },
    )
    .floor(0.3);
    let report = RandomSub::<String>::new(
        "check-report",
        (60_000, 1_200_000),
        |_| {
            prop_oneof![
                3 => (gens::pep::pepv(4), 0u8..10, 0usize..12).prop_map(|(p, kind, k)| gens::pep::one_deviation(&p, kind, k)),
                2 => spelled(),
                1 => mutate(spelled()),
                1 => crate::props::c08::calver_like(),
            ]
            .boxed()
        },
        check_report,
    )
    .floor(0.3);
    let l2 = RandomSub::<String>::new(
        "cli-check",
        (400, 6_000),
        |_| prop_oneof![2 => spelled(), 3 => mutate(spelled())].prop_filter("argv-safe positional", |s| proc::argv_safe(s) && !s.starts_with('-') && !s.is_empty()).boxed(),
        |s, cx| {
            let o = proc::zerv(&["check", "--format", "pep440", s], None);
            if o.timed_out {
                infra(format!("zerv check timed out on {s:?}"));
                return Ok(());
            }
            let z = PEP440::from_str(s);
            cx.nt_if(near_boundary(s));
            cx.note(|| format!("{s:?}: exit={:?}", o.code));
            match z {
                Ok(v) => {
                    ensure!(o.code == Some(0), "binary rejects {s:?} (exit {:?}) although the parser accepts it", o.code);
                    let nf = v.to_string();
                    let want = if nf == *s { format!("Version: {s}\n✓ Valid PEP440 format\n") } else { format!("Version: {s}\n✓ Valid PEP440 format (normalized: {nf})\n") };
                    ensure!(o.out_str() == want, "binary stdout {:?} != {want:?}", o.out_str());
                }
                Err(_) => {
                    ensure!(o.code == Some(1), "binary exit {:?} (signal {:?}) on rejected {s:?}", o.code, o.signal);
                    ensure!(o.stdout.is_empty(), "binary printed {:?} on stdout for rejected {s:?}", o.out_str());
                }
            }
            Ok(())
        },
    )
    .shrink_iters(200);
    Property {
        id: "C09",
        rule: "cases = candidate version strings: exhaustive short strings / suffixes of \"1.0\" over the PEP 440 alphabet plus case-folding look-alikes, every spelling of structured versions (case, separators, alternative labels, leading zeros, v prefix, explicit 0!, implicit numbers, -N post form), 1-2 symbol mutations, numbers up to 10^25, arbitrary Unicode; long-lookalike: valid versions padded with local segments to 65..520 bytes with one ASCII character replaced by a look-alike whose case folding or digit class maps onto ASCII (Kelvin sign, long s, dotted/dotless i, fullwidth and Arabic-Indic digits, Cyrillic letters). Oracle: hand-written backtracking matcher of the Appendix-B grammar + normaliser (cross-checked against `packaging` by tools/xcheck_oracles.py). Non-trivial = the grammar accepts the string or accepts it after deleting one character; for `spellings`: the spelling differs from the normal form; distinct = distinct strings.",
        assumptions: vec![
            "a grammar-valid string with a number above u32 may be rejected (range limit) but must never be accepted and printed as another number",
            "strings with surrounding whitespace are outside the statement (they are simply judged by the grammar: rejected)",
        ],
        subs: vec![e1.boxed(), e2.boxed(), r0.boxed(), r1.boxed(), r2.boxed(), long.boxed(), report.boxed(), l2.boxed()],
        known_repro: vec![],
    }
}
