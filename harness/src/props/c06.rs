//! C06 — rendering places every schema component where the documented rules say (DESIGN.md §6 C06).
use crate::cli;
use crate::gens;
use crate::gens::zervgen as zg;
use crate::model::*;
use crate::oracle::render as orender;
use crate::runner::*;
use proptest::prelude::*;
use serde::{Deserialize, Serialize};
use zerv::version::{PEP440, SemVer};

#[derive(Debug, Clone, Hash, Serialize, Deserialize)]
pub struct RenderCase {
    pub z: MZerv,
    pub via_cli: bool,
}

fn contributes_other_than_one(z: &MZerv) -> bool {
    z.schema.all().any(|c| match orender::raw_value(c, &z.vars) {
        None => true, // unset variable present in the schema
        Some(raw) => {
            let n = crate::oracle::sanitize::runs(&raw).len();
            n != 1
        }
    })
}
fn is_custom(s: &MSchema) -> bool {
    !(s.core == vec![MComp::Var(MVar::Major), MComp::Var(MVar::Minor), MComp::Var(MVar::Patch)])
}

pub fn known_f12b(z: &MZerv) -> bool {
    orender::pep440_out_of_range(z)
}

fn check_render(c: &RenderCase, cx: &mut Cx) -> Res {
    let z = &c.z;
    let zerv = z.to_zerv().map_err(|e| Bad::Fail(format!("harness bug: generated schema rejected: {e} ({})", z.schema.to_ron())))?;
    cx.nt_if(is_custom(&z.schema) && contributes_other_than_one(z));
    cx.label_if(z.schema.all().any(|c| orender::raw_value(c, &z.vars).is_none()), "unset-var-in-schema");
    cx.label_if(c.via_cli, "via-cli");
    let t_before = std::time::SystemTime::now().duration_since(std::time::UNIX_EPOCH).unwrap().as_secs();
    let (got_s, got_p) = if c.via_cli {
        let ron = zerv.to_string();
        let s = cli::version(&cli::sv(&["--source", "stdin", "--output-format", "semver"]), Some(&ron));
        let p = cli::version(&cli::sv(&["--source", "stdin", "--output-format", "pep440"]), Some(&ron));
        match (s, p) {
            (cli::Run::Ok(s), cli::Run::Ok(p)) => (s, p),
            (s, p) => return fail(format!("stdin rendering failed: semver {} / pep440 {}", s.describe(), p.describe())),
        }
    } else {
        let s = no_panic(|| SemVer::from(zerv.clone()).to_string()).map_err(|p| Bad::Fail(format!("SemVer::from panicked: {p}")))?;
        let p = no_panic(|| PEP440::from(zerv.clone()).to_string()).map_err(|p| Bad::Fail(format!("PEP440::from panicked: {p}")))?;
        (s, p)
    };
    let t_after = std::time::SystemTime::now().duration_since(std::time::UNIX_EPOCH).unwrap().as_secs();
    // documented: through the CLI a dirty work tree replaces bumped_timestamp by the wall clock
    let clocked = c.via_cli && z.vars.dirty == Some(true);
    let candidates: Vec<MZerv> = if clocked {
        cx.label("dirty-wall-clock");
        (t_before..=t_after).map(|t| { let mut m = z.clone(); m.vars.bumped_timestamp = Some(t); m }).collect()
    } else {
        vec![z.clone()]
    };
    let want_s = orender::semver(&candidates[0]);
    let want_p = orender::pep440(&candidates[0]);
    let ok_s = candidates.iter().any(|m| orender::semver(m) == got_s);
    let ok_p = candidates.iter().any(|m| orender::pep440(m) == got_p);
    cx.note(|| format!("{} => {got_s} | {got_p}", z.schema.to_ron()));
    ensure!(ok_s, "SemVer rendering {got_s:?} != placement rules {want_s:?} for schema {} vars {:?}", z.schema.to_ron(), z.vars);
    if known_f12b(z) {
        cx.label("pep440-out-of-u32-range(not compared)");
    } else {
        ensure!(ok_p, "PEP 440 rendering {got_p:?} != placement rules {want_p:?} for schema {} vars {:?}", z.schema.to_ron(), z.vars);
    }
    Ok(())
}

#[derive(Debug, Clone, Hash, Serialize, Deserialize)]
pub struct TierCase {
    pub preset: usize, // index into the six smart presets
    pub a: MVars,
    pub b: MVars, // same dirty / distance / pre_release / post as a, everything else different
}
const SMART: [&str; 6] = ["standard", "standard-no-context", "standard-context", "calver", "calver-no-context", "calver-context"];

fn emitted_schema(preset: &str, v: &MVars) -> Result<MSchema, Bad> {
    // feed the vars through stdin with a one-component schema; ask for the preset; read the emitted object
    let z = MZerv { schema: MSchema { core: vec![MComp::Var(MVar::Major)], ..Default::default() }, vars: v.clone() };
    let ron = z.to_zerv().map_err(Bad::Fail)?.to_string();
    match cli::version(&cli::sv(&["--source", "stdin", "--schema", preset, "--output-format", "zerv"]), Some(&ron)) {
        cli::Run::Ok(out) => {
            let parsed: zerv::version::Zerv = out.parse().map_err(|e| Bad::Fail(format!("emitted object does not parse: {e}")))?;
            Ok(MSchema::from_zerv(&parsed.schema))
        }
        other => Err(Bad::Fail(format!("preset {preset} failed on {v:?}: {}", other.describe()))),
    }
}

fn check_tier(c: &TierCase, cx: &mut Cx) -> Res {
    let preset = SMART[c.preset % 6];
    let sa = emitted_schema(preset, &c.a)?;
    let sb = emitted_schema(preset, &c.b)?;
    cx.nt_if(c.a != c.b);
    cx.label_if(c.a.dirty == Some(true), "dirty");
    cx.label_if(c.a.distance.unwrap_or(0) > 0, "distance>0");
    cx.label_if(c.a.pre_release.is_some(), "pre");
    cx.label_if(c.a.post.is_some(), "post");
    cx.note(|| format!("{preset}: {}", sa.to_ron()));
    ensure!(sa == sb, "smart preset {preset} chose different tiers although dirty/distance/pre-release/post agree:\n  {} for {:?}\n  {} for {:?}", sa.to_ron(), c.a, sb.to_ron(), c.b);
    Ok(())
}

pub fn property() -> Property {
    let render = RandomSub::<RenderCase>::new(
        "render-model",
        (60_000, 1_500_000),
        |_| (prop_oneof![3 => zg::mzerv(false), 1 => zg::mzerv(true)], prop::bool::weighted(0.25)).prop_map(|(z, via_cli)| RenderCase { z, via_cli }).boxed(),
        check_render,
    )
    .floor(0.3);
    let tier = RandomSub::<TierCase>::new(
        "smart-tier",
        (6_000, 120_000),
        |_| {
            (0usize..6, zg::vars(false), zg::vars(false))
                .prop_map(|(preset, a, mut b)| {
                    b.dirty = a.dirty;
                    b.distance = a.distance;
                    b.pre_release = a.pre_release;
                    b.post = a.post;
                    TierCase { preset, a, b }
                })
                .boxed()
        },
        check_tier,
    )
    .floor(0.5);
    // the tier depends on the *state* only: dirty or not, ahead (distance > 0) or not, pre-release
    // present or not, post present or not — whatever their values
    let tier_abs = RandomSub::<TierCase>::new(
        "smart-tier-abstract",
        (6_000, 120_000),
        |_| {
            (0usize..6, zg::vars(false), zg::vars(false), 1u64..50, (0u8..3, proptest::option::weighted(0.8, gens::num::u32_biased())), gens::num::u32_biased())
                .prop_map(|(preset, a, mut b, d, pre, post)| {
                    b.dirty = a.dirty;
                    b.distance = match a.distance { Some(x) if x > 0 => Some(d), other => other };
                    b.pre_release = a.pre_release.map(|_| pre);
                    b.post = a.post.map(|_| post);
                    TierCase { preset, a, b }
                })
                .boxed()
        },
        check_tier,
    )
    .floor(0.5);
    let _ = gens::pick::<u8>;
    Property {
        id: "C06",
        rule: "cases = (valid schema, variable assignment) pairs: schemas are arbitrary valid mixes of var/str/uint/ts/custom components in the three sections; vars have nasty text, boundary numbers, nested custom JSON, unset fields. Oracle: reference renderer written from the placement rules (oracle::render on oracle::sanitize + oracle::calendar), exact string equality for SemVer and PEP 440, through the From conversions and through `version --source stdin`. smart-tier: two assignments agreeing on dirty/distance/pre_release/post must get the same schema from each smart preset; smart-tier-abstract: the same when only the state agrees (dirty flag, distance zero/positive, pre-release and post present/absent) and the values differ. Non-trivial = custom schema in which some component contributes != 1 identifier or is an unset variable (render-model); the two assignments differ (smart-tier); distinct = distinct cases.",
        assumptions: vec![
            "epoch is None or >= 1 (epoch 0 is normalised away by the CLI path and the statement does not say whether 0 counts as set)",
            "timestamps <= 9999-12-31; ts() patterns are the 16 documented names",
            "PEP 440 strings are compared only when every number in a numeric slot fits u32 (above that: known finding F12b under C07)",
            "integer-valued = only ASCII digits after trimming whitespace, as the uint sanitiser documents",
        ],
        subs: vec![render.boxed(), tier.boxed(), tier_abs.boxed()],
        known_repro: vec![],
    }
}
