//! C11 — PEP 440 comparison is a spelling-independent total order on a fixed key (DESIGN.md §6 C11).
use crate::gens;
use crate::gens::pep::{PepV, Spelling};
use crate::oracle::pep440 as opep;
use crate::runner::*;
use proptest::prelude::*;
use std::cmp::Ordering;
use std::str::FromStr;
use std::sync::OnceLock;
use zerv::vcs::git_utils::GitUtils;
use zerv::version::PEP440;

fn universe() -> &'static Vec<PepV> {
    static U: OnceLock<Vec<PepV>> = OnceLock::new();
    U.get_or_init(|| {
        let mut v = Vec::new();
        let locals: [Option<Vec<&str>>; 5] = [None, Some(vec!["1"]), Some(vec!["a"]), Some(vec!["a", "1"]), Some(vec!["1", "a"])];
        for epoch in [0u64, 1] {
            for release in [vec![1u64], vec![1, 0], vec![1, 1], vec![2]] {
                for pre in [None, Some((0u8, 0u64)), Some((0, 1)), Some((1, 0)), Some((2, 1))] {
                    for post in [None, Some(0u64), Some(1)] {
                        for dev in [None, Some(0u64), Some(1)] {
                            for local in &locals {
                                v.push(PepV {
                                    epoch,
                                    release: release.clone(),
                                    pre,
                                    post,
                                    dev,
                                    local: local.as_ref().map(|l| l.iter().map(|s| s.to_string()).collect()),
                                });
                            }
                        }
                    }
                }
            }
        }
        v
    })
}

fn parse(s: &str) -> Result<(PEP440, opep::Pep), Bad> {
    let z = PEP440::from_str(s).map_err(|e| Bad::Fail(format!("valid PEP 440 string {s:?} rejected: {e}")))?;
    let o = opep::parse(s).ok_or_else(|| Bad::Fail(format!("harness bug: oracle rejects {s:?}")))?;
    Ok((z, o))
}

fn check_pair(p: &(String, String), cx: &mut Cx) -> Res {
    let (a, oa) = parse(&p.0)?;
    let (b, ob) = parse(&p.1)?;
    let want = opep::cmp(&oa, &ob);
    let got = a.cmp(&b);
    let rev = b.cmp(&a);
    cx.nt_if(p.0 != p.1);
    cx.label(match want {
        Ordering::Less => "less",
        Ordering::Equal => "equal",
        Ordering::Greater => "greater",
    });
    cx.note(|| format!("{} vs {}: zerv {:?}, key order {:?}", p.0, p.1, got, want));
    ensure!(got == want, "cmp({}, {}) = {got:?}, the stated key order says {want:?}", p.0, p.1);
    ensure!(rev == got.reverse(), "antisymmetry: cmp({0},{1})={got:?} but cmp({1},{0})={rev:?}", p.0, p.1);
    ensure!((a == b) == (got == Ordering::Equal), "== disagrees with cmp on {} vs {}: eq={} cmp={got:?}", p.0, p.1, a == b);
    ensure!(a.partial_cmp(&b) == Some(got), "partial_cmp disagrees with cmp on {} vs {}", p.0, p.1);
    Ok(())
}

fn check_triple(t: &(String, String, String), cx: &mut Cx) -> Res {
    let a = parse(&t.0)?.0;
    let b = parse(&t.1)?.0;
    let c = parse(&t.2)?.0;
    cx.nt_if(t.0 != t.1 && t.1 != t.2 && t.0 != t.2);
    cx.note(|| format!("{:?}", t));
    let (ab, bc, ac) = (a.cmp(&b), b.cmp(&c), a.cmp(&c));
    if ab != Ordering::Greater && bc != Ordering::Greater {
        ensure!(ac != Ordering::Greater, "transitivity: {0} <= {1} <= {2} but {0} > {2}", t.0, t.1, t.2);
        if ab == Ordering::Less || bc == Ordering::Less {
            ensure!(ac == Ordering::Less, "transitivity (strict): {0} {ab:?} {1} {bc:?} {2} but {0} {ac:?} {2}", t.0, t.1, t.2);
        }
    }
    if ab == Ordering::Equal && bc == Ordering::Equal {
        ensure!(ac == Ordering::Equal, "equality not transitive on {:?}", t);
    }
    Ok(())
}

/// all spellings of one version compare equal (and equal under ==)
fn check_spellings(c: &(PepV, Vec<Spelling>), cx: &mut Cx) -> Res {
    let (p, sps) = c;
    let strs: Vec<String> = std::iter::once(p.normal()).chain(sps.iter().map(|sp| gens::pep::spell(p, sp, true))).collect();
    cx.nt_if(strs.iter().any(|s| *s != strs[0]));
    cx.note(|| format!("{strs:?}"));
    let parsed: Vec<PEP440> = strs.iter().map(|s| parse(s).map(|x| x.0)).collect::<Result<_, _>>()?;
    for (i, a) in parsed.iter().enumerate() {
        for (j, b) in parsed.iter().enumerate() {
            ensure!(a.cmp(b) == Ordering::Equal && a == b, "spellings {:?} and {:?} of one version do not compare equal (cmp={:?}, eq={})", strs[i], strs[j], a.cmp(b), a == b);
        }
    }
    Ok(())
}

/// pairs differing in exactly one field (deciding component deep in the key)
fn related() -> BoxedStrategy<(PepV, PepV)> {
    (gens::pep::pepv(4), gens::pep::pepv(4), 0usize..11, any::<prop::sample::Index>(), gens::pick(&["a", "z", "0", "9", "1"]))
        .prop_map(|(mut a, d, f, at, ch)| {
            if f >= 9 {
                // neighbours: one number of the version differs by exactly 1 (or by a few), at any
                // magnitude - what a comparison through a lossy key (f32, packed integers) cannot tell apart
                let big = [16_777_216u64, 16_777_217, 20_000_000, 1_729_924_622, 2_147_483_647, 4_294_967_000, 4_294_967_294];
                let base = big[at.index(big.len())];
                let step = if f == 9 { 1 } else { 1 + (d.epoch % 40) };
                let mut b = a.clone();
                match d.release.len() % 4 {
                    0 => { a.post = Some(base); b.post = Some(base + step.min(4_294_967_295 - base)); }
                    1 => { a.dev = Some(base); b.dev = Some(base + step.min(4_294_967_295 - base)); }
                    2 => { a.pre = Some((a.pre.map(|p| p.0).unwrap_or(1), base)); b.pre = Some((a.pre.unwrap().0, base + step.min(4_294_967_295 - base))); }
                    _ => { a.release = vec![1, base]; b.release = vec![1, base + step.min(4_294_967_295 - base)]; }
                }
                b.local = a.local.clone();
                return (a, b);
            }
            if f >= 7 {
                // one local segment changed in its last character / lengthened by one character
                // (the deciding character may lie far behind the 40th)
                if a.local.is_none() {
                    a.local = d.local.clone().or(Some(vec!["x".into()]));
                }
            }
            let mut b = a.clone();
            match f {
                7 | 8 => {
                    let l = b.local.as_mut().unwrap();
                    let i = at.index(l.len());
                    let mut seg = l[i].clone();
                    if f == 7 && seg.len() > 1 {
                        seg.pop();
                    }
                    seg.push_str(ch);
                    // keep numeric segments canonical
                    if seg.bytes().all(|c| c.is_ascii_digit()) {
                        let t = seg.trim_start_matches('0');
                        seg = if t.is_empty() { "0".into() } else { t.into() };
                    }
                    l[i] = seg;
                }
                0 => b.epoch = d.epoch,
                1 => b.release = d.release,
                2 => b.pre = d.pre,
                3 => b.post = d.post,
                4 => b.dev = d.dev,
                5 => b.local = d.local,
                _ => {
                    // trailing zero / extra release numbers
                    b.release.push(d.epoch.min(1));
                }
            }
            (a, b)
        })
        .boxed()
}

/// the greatest PEP 440 tag on a commit, through the real binary and a real repository
fn check_git_max(c: &crate::props::c10::GitTagsCase, cx: &mut Cx) -> Res {
    let (repo, made) = match crate::gitlab::repo_with_tags(&c.tags, c.decoy, c.commits_after) {
        Ok(x) => x,
        Err(e) => {
            infra(format!("cannot build the repository: {e}"));
            return Ok(());
        }
    };
    if made.is_empty() {
        return Ok(());
    }
    let o = crate::proc::run(&crate::proc::Spec { args: crate::cli::sv(&["version", "-C", &repo.path(), "--input-format", "pep440", "--output-format", "zerv"]), cwd: Some("/".into()), ..Default::default() });
    if o.timed_out {
        infra("zerv timed out");
        return Ok(());
    }
    cx.nt_if(made.len() >= 2);
    cx.label_if(c.decoy.is_some(), "branch-named-like-a-tag");
    ensure!(o.code == Some(0), "zerv failed (exit {:?}: {}) on a commit tagged {made:?}", o.code, o.err_str().trim().chars().take(300).collect::<String>());
    let z = <zerv::version::Zerv as std::str::FromStr>::from_str(&o.out_str()).map_err(|e| Bad::Fail(format!("output does not parse: {e}")))?;
    let got = z.vars.last_tag_version.clone().unwrap_or_default();
    cx.note(|| format!("{made:?} (decoy {:?}) -> {got}", c.decoy));
    ensure!(made.contains(&got), "last_tag_version {got:?} is not one of the tags {made:?}");
    let g = opep::parse(&got).ok_or_else(|| Bad::Fail(format!("chosen tag {got:?} is not PEP 440")))?;
    for t in &made {
        if let Some(o) = opep::parse(t) {
            ensure!(opep::cmp(&o, &g) != Ordering::Greater, "zerv chose {got} on a commit tagged {made:?}, but {t} is greater ({})", repo.log.join("; "));
        }
    }
    Ok(())
}

pub fn property() -> Property {
    let pairs = EnumSub::<(String, String)>::new(
        "enum-pairs",
        "all ordered pairs of the 1800-version universe epoch{0,1} x release{1, 1.0, 1.1, 2} x pre{none,a0,a1,b0,rc1} x post{none,0,1} x dev{none,0,1} x local{none,1,a,a.1,1.a}; each side in a spelling derived from the pair index",
        |_tier, shard, n, visit| {
            let u = universe();
            for (i, a) in u.iter().enumerate() {
                if i % n != shard {
                    continue;
                }
                for (j, b) in u.iter().enumerate() {
                    let k = (i * 1800 + j) as u64;
                    let sa = Spelling::from_bits(k * 2 + 1);
                    let sb = Spelling::from_bits(k * 2 + 2);
                    // trailing ".0" release numbers only when that keeps identity under the key
                    let p = (gens::pep::spell(a, &sa, true), gens::pep::spell(b, &sb, true));
                    if !visit(&p) {
                        return;
                    }
                }
            }
        },
        check_pair,
    );
    let spell_enum = EnumSub::<(PepV, Vec<Spelling>)>::new(
        "enum-spellings",
        "every version of the 1800-version universe in 6 (quick) / 40 (thorough) spellings derived from its index: all must compare equal",
        |tier, shard, n, visit| {
            let u = universe();
            for (i, a) in u.iter().enumerate() {
                if i % n != shard {
                    continue;
                }
                let k = tier.pick(6, 40);
                let sps: Vec<Spelling> = (0..k).map(|j| Spelling::from_bits((i * 64 + j) as u64 ^ 0xabcdef)).collect();
                if !visit(&(a.clone(), sps)) {
                    return;
                }
            }
        },
        check_spellings,
    );
    let triples = RandomSub::<(String, String, String)>::new(
        "rand-triples",
        (150_000, 3_000_000),
        |_| {
            let from_u = |i: usize, b: u64| gens::pep::spell(&universe()[i], &Spelling::from_bits(b), true);
            prop_oneof![
                3 => (0..1800usize, 0..1800usize, 0..1800usize, any::<u64>()).prop_map(move |(i, j, k, b)| (from_u(i, b), from_u(j, b ^ 1), from_u(k, b ^ 2))),
                2 => (related(), gens::pep::pepv(4), 0usize..3).prop_map(|((a, b), c, r)| { let (a, b, c) = (a.normal(), b.normal(), c.normal()); match r { 0 => (a, b, c), 1 => (a, c, b), _ => (c, a, b) } }),
            ]
            .boxed()
        },
        check_triple,
    )
    .floor(0.5);
    let rand_pairs = RandomSub::<(String, String)>::new(
        "rand-pairs",
        (100_000, 3_000_000),
        |_| {
            prop_oneof![
                3 => (related(), gens::pep::spelling(), gens::pep::spelling()).prop_map(|((a, b), s1, s2)| (gens::pep::spell(&a, &s1, true), gens::pep::spell(&b, &s2, true))),
                1 => (gens::pep::pepv(5), gens::pep::pepv(5)).prop_map(|(a, b)| (a.normal(), b.normal())),
            ]
            .boxed()
        },
        check_pair,
    )
    .floor(0.5);
    let rand_spell = RandomSub::<(PepV, Vec<Spelling>)>::new(
        "rand-spellings",
        (40_000, 800_000),
        |_| (gens::pep::pepv(5), proptest::collection::vec(gens::pep::spelling(), 1..5)).boxed(),
        check_spellings,
    )
    .floor(0.5);
    let max_tag = RandomSub::<Vec<String>>::new(
        "max-tag",
        (30_000, 600_000),
        |_| {
            let tag = || (0..1800usize, any::<u64>()).prop_map(|(i, b)| gens::pep::spell(&universe()[i], &Spelling::from_bits(b), true));
            prop_oneof![
                3 => proptest::collection::vec(tag(), 1..8),
                // "twins": one tag re-written with a single separator exchanged for another one
                // ('-' '.' '_' or none).  Most such pairs are spellings of one version; some are
                // different versions (1.0-1 is 1.0.post1, 1.0.1 is a release)
                2 => (proptest::collection::vec(tag(), 1..5), any::<prop::sample::Index>(), any::<prop::sample::Index>(), gens::pick(&[".", "-", "_", ""]), any::<bool>()).prop_map(|(mut v, which, at, rep, front)| {
                    let s = v[which.index(v.len())].clone();
                    let seps: Vec<usize> = s.char_indices().filter(|(_, c)| matches!(c, '.' | '-' | '_')).map(|(i, _)| i).collect();
                    if !seps.is_empty() {
                        let i = seps[at.index(seps.len())];
                        let t = format!("{}{}{}", &s[..i], rep, &s[i + 1..]);
                        if t != s && opep::parse(&t).is_some() {
                            if front { v.insert(0, t) } else { v.push(t) }
                        }
                    }
                    v
                }),
            ]
            .boxed()
        },
        |tags, cx| {
            let valid = GitUtils::filter_only_valid_tags(tags, "pep440");
            ensure!(valid.len() == tags.len(), "filter_only_valid_tags dropped valid PEP 440 tags from {tags:?}");
            let got = match no_panic(|| GitUtils::find_max_version_tag(&valid)) {
                Ok(Ok(Some(t))) => t,
                other => return fail(format!("find_max_version_tag({tags:?}) = {other:?}")),
            };
            cx.nt_if(tags.len() >= 2);
            cx.note(|| format!("{tags:?} -> {got}"));
            ensure!(tags.contains(&got), "returned tag {got:?} is not in the list {tags:?}");
            let g = opep::parse(&got).unwrap();
            for t in tags {
                let o = opep::parse(t).unwrap();
                ensure!(opep::cmp(&o, &g) != Ordering::Greater, "max tag {got} of {tags:?} is exceeded by {t}");
            }
            Ok(())
        },
    )
    .floor(0.5);
    let git_max = RandomSub::<crate::props::c10::GitTagsCase>::new(
        "git-max-tag",
        (150, 2_500),
        |_| {
            let tag = || (0..1800usize, any::<u64>()).prop_map(|(i, b)| gens::pep::spell(&universe()[i], &Spelling::from_bits(b), true));
            (proptest::collection::vec(prop_oneof![3 => tag(), 1 => (gens::pep::pepv(3), gens::pep::spelling()).prop_map(|(p, s)| gens::pep::spell(&p, &s, false))], 1..6), proptest::option::weighted(0.4, 0usize..6), 0u8..2)
                .prop_map(|(tags, decoy, commits_after)| crate::props::c10::GitTagsCase { tags, decoy, commits_after, auto: false })
                .boxed()
        },
        check_git_max,
    )
    .shrink_iters(40);
    Property {
        id: "C11",
        rule: "cases = ordered pairs / triples of PEP 440 strings, spelling sets of one version, tag lists. Exhaustive: all 1800^2 ordered pairs of a field universe, each side in an index-derived spelling (case, separators, alternative labels, leading zeros, v prefix, explicit 0!, implicit numbers, trailing .0 release numbers); random: numbers to u32::MAX, pairs differing in one field. Oracle: the key stated in C11 on digit strings; laws (antisymmetry, transitivity, == iff Equal, spellings equal) checked without it. Non-trivial = strings of the pair/triple differ (pairwise for triples), spelling sets with >=2 distinct strings, tag lists with >=2 tags; distinct = distinct tuples.",
        assumptions: vec!["numbers <= u32::MAX (the parser's documented range); numeric local segments <= u32::MAX"],
        subs: vec![pairs.boxed(), spell_enum.boxed(), rand_pairs.boxed(), triples.boxed(), rand_spell.boxed(), max_tag.boxed(), git_max.boxed()],
        known_repro: vec![],
    }
}
