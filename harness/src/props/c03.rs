//! C03 — flow versions sort consistently with history (DESIGN.md §6 C03).
use crate::cli;
use crate::gens;
use crate::oracle::flow::{self as oflow, Rule};
use crate::oracle::{pep440 as opep, semver as osem};
use crate::props::c04;
use crate::runner::*;
use proptest::prelude::*;
use serde::{Deserialize, Serialize};
use std::cmp::Ordering;

/// presets that print the pre-release slot (strict bounds apply) and the two that drop it by design
const PRE_PRESETS: [&str; 9] = [
    "standard", "standard-no-context", "standard-context", "standard-base-prerelease", "standard-base-prerelease-context",
    "standard-base-prerelease-post", "standard-base-prerelease-post-context", "standard-base-prerelease-post-dev", "standard-base-prerelease-post-dev-context",
];
const BASE_PRESETS: [&str; 2] = ["standard-base", "standard-base-context"];
/// presets that print `post` whenever there is a distance
const POST_PRESETS: [&str; 7] = [
    "standard", "standard-no-context", "standard-context", "standard-base-prerelease-post", "standard-base-prerelease-post-context",
    "standard-base-prerelease-post-dev", "standard-base-prerelease-post-dev-context",
];

#[derive(Debug, Clone, Hash, Serialize, Deserialize)]
pub struct State {
    pub tag: [u64; 3],
    pub branch: Option<String>,
    pub distance: Option<u64>,
    pub dirt: u8, // 0 unset 1 dirty 2 no-dirty
    pub rules: Option<Vec<Rule>>,
    pub post_mode: Option<bool>,
    pub hash_len: u32,
}
#[derive(Debug, Clone, Hash, Serialize, Deserialize)]
pub struct BoundCase {
    pub s: State,
    pub preset: usize, // index into PRE_PRESETS ++ BASE_PRESETS, or 11 = default (no --schema)
    pub pep440: bool,
}

fn argv(s: &State, schema: Option<&str>, pep440: bool) -> Vec<String> {
    let mut a = vec!["--source=none".to_string(), format!("--tag-version={}.{}.{}", s.tag[0], s.tag[1], s.tag[2]), "--input-format=semver".into()];
    if let Some(b) = &s.branch {
        a.push(format!("--bumped-branch={b}"));
    }
    if let Some(d) = s.distance {
        a.push(format!("--distance={d}"));
    }
    match s.dirt {
        1 => a.push("--dirty".into()),
        2 => a.push("--no-dirty".into()),
        _ => {}
    }
    if let Some(r) = &s.rules {
        a.push(format!("--branch-rules={}", oflow::rules_ron(r)));
    }
    if let Some(m) = s.post_mode {
        a.push(format!("--post-mode={}", if m { "tag" } else { "commit" }));
    }
    a.push(format!("--hash-branch-len={}", s.hash_len));
    if let Some(sc) = schema {
        a.push(format!("--schema={sc}"));
    }
    a.push(format!("--output-format={}", if pep440 { "pep440" } else { "semver" }));
    a
}

/// independent comparison of two rendered versions in the order of the output format
pub fn cmp_out(a: &str, b: &str, pep440: bool) -> Result<Ordering, Bad> {
    if pep440 {
        let x = opep::parse(a).ok_or_else(|| Bad::Fail(format!("{a:?} is not PEP 440")))?;
        let y = opep::parse(b).ok_or_else(|| Bad::Fail(format!("{b:?} is not PEP 440")))?;
        // public-version order; local labels (build context) only break ties
        Ok(opep::cmp(&opep::Pep { local: None, ..x.clone() }, &opep::Pep { local: None, ..y.clone() }))
    } else {
        let x = osem::parse(a).ok_or_else(|| Bad::Fail(format!("{a:?} is not SemVer")))?;
        let y = osem::parse(b).ok_or_else(|| Bad::Fail(format!("{b:?} is not SemVer")))?;
        Ok(osem::cmp(&x, &y))
    }
}

fn is_clean(s: &State) -> bool {
    s.dirt != 1 && s.distance.unwrap_or(0) == 0
}

fn check_bounds(c: &BoundCase, cx: &mut Cx) -> Res {
    let s = &c.s;
    let (schema, base_preset) = match c.preset {
        i @ 0..=8 => (Some(PRE_PRESETS[i]), false),
        i @ 9..=10 => (Some(BASE_PRESETS[i - 9]), true),
        _ => (None, false),
    };
    let a = argv(s, schema, c.pep440);
    let out = match cli::flow(&a, None) {
        cli::Run::Ok(o) => o,
        cli::Run::Panic(p) => return fail(format!("flow panicked on {a:?}: {p}")),
        other => return fail(format!("flow failed on {a:?}: {}", other.describe())),
    };
    let x = format!("{}.{}.{}", s.tag[0], s.tag[1], s.tag[2]);
    let next = format!("{}.{}.{}", s.tag[0], s.tag[1], s.tag[2] + 1);
    let clean = is_clean(s);
    let rule_exact = s.branch.as_deref().is_some_and(|b| s.rules.clone().unwrap_or_else(oflow::default_rules).iter().any(|r| r.pattern == b));
    cx.nt_if(!clean && !rule_exact);
    cx.label_if(clean, "clean-at-tag");
    cx.label_if(base_preset, "base-preset");
    cx.note(|| format!("{a:?} -> {out}"));
    let with_context = schema.is_some_and(|s| s.ends_with("-context") && s != "standard-no-context");
    if clean {
        if with_context {
            let core = out.split('+').next().unwrap_or("");
            ensure!(core == x, "clean checkout at tag {x} yields {out:?} (schema {schema:?})");
        } else {
            ensure!(out == x, "clean checkout at tag {x} yields {out:?}, expected exactly {x} (schema {schema:?})");
        }
        return Ok(());
    }
    let lo = cmp_out(&x, &out, c.pep440)?;
    let hi = cmp_out(&out, &next, c.pep440)?;
    ensure!(lo == Ordering::Less, "{out:?} is not greater than its base tag {x} ({a:?})");
    if base_preset {
        // documented: standard-base[-context] prints only the bumped core ("-> 1.0.1")
        ensure!(hi != Ordering::Greater, "{out:?} is above the next patch {next} ({a:?})");
        ensure!(out.split('+').next() == Some(next.as_str()), "standard-base output {out:?} should be the bumped core {next} ({a:?})");
    } else {
        ensure!(hi == Ordering::Less, "{out:?} is not below the next patch release {next} ({a:?})");
    }
    Ok(())
}

#[derive(Debug, Clone, Hash, Serialize, Deserialize)]
pub struct MonoCase {
    pub s: State,
    pub d1: u64,
    pub d2: u64,
    pub dirt2: u8,
    pub preset: usize,
    pub pep440: bool,
}
fn check_mono(c: &MonoCase, cx: &mut Cx) -> Res {
    let schema = POST_PRESETS[c.preset % POST_PRESETS.len()];
    let (d1, d2) = (c.d1.min(c.d2), c.d1.max(c.d2));
    if d1 == d2 {
        return Ok(());
    }
    let mut s1 = c.s.clone();
    s1.distance = Some(d1);
    s1.post_mode = Some(false);
    let mut s2 = s1.clone();
    s2.distance = Some(d2);
    s2.dirt = c.dirt2;
    let (a1, a2) = (argv(&s1, Some(schema), c.pep440), argv(&s2, Some(schema), c.pep440));
    let (o1, o2) = match (cli::flow(&a1, None), cli::flow(&a2, None)) {
        (cli::Run::Ok(a), cli::Run::Ok(b)) => (a, b),
        (a, b) => return fail(format!("flow failed: {} / {}", a.describe(), b.describe())),
    };
    cx.nt_if(s1.dirt != s2.dirt || d1 > 0);
    cx.note(|| format!("d={d1}: {o1}  <  d={d2}: {o2}"));
    let o = cmp_out(&o1, &o2, c.pep440)?;
    ensure!(o == Ordering::Less, "adding commits does not increase the version: distance {d1} -> {o1:?}, distance {d2} -> {o2:?} (cmp {o:?}; {a1:?})");
    Ok(())
}

#[derive(Debug, Clone, Hash, Serialize, Deserialize)]
pub struct PreTagCase {
    pub core: [u64; 3],
    pub label: u8,
    pub n: u64,
    pub post: Option<u64>,
    pub branch: Option<String>,
    pub preset: Option<usize>,
    pub pep440: bool,
    pub distance0: bool,
}
fn check_pretag(c: &PreTagCase, cx: &mut Cx) -> Res {
    let l = ["alpha", "beta", "rc"][c.label as usize % 3];
    let tag = match c.post {
        Some(p) => format!("{}.{}.{}-{l}.{}.post.{p}", c.core[0], c.core[1], c.core[2], c.n),
        None => format!("{}.{}.{}-{l}.{}", c.core[0], c.core[1], c.core[2], c.n),
    };
    // presets able to print what the tag has
    let presets: &[&str] = if c.post.is_some() { &["standard", "standard-no-context", "standard-base-prerelease-post", "standard-base-prerelease-post-dev"] } else { &["standard", "standard-no-context", "standard-base-prerelease", "standard-base-prerelease-post", "standard-base-prerelease-post-dev"] };
    let mut a = vec!["--source=none".to_string(), format!("--tag-version={tag}"), "--input-format=semver".into()];
    if let Some(b) = &c.branch {
        a.push(format!("--bumped-branch={b}"));
    }
    if c.distance0 {
        a.push("--distance=0".into());
    }
    if let Some(p) = c.preset {
        a.push(format!("--schema={}", presets[p % presets.len()]));
    }
    a.push(format!("--output-format={}", if c.pep440 { "pep440" } else { "semver" }));
    let out = match cli::flow(&a, None) {
        cli::Run::Ok(o) => o,
        other => return fail(format!("flow failed on {a:?}: {}", other.describe())),
    };
    cx.nt();
    cx.note(|| format!("{a:?} -> {out}"));
    let want = if c.pep440 {
        let lp = ["a", "b", "rc"][c.label as usize % 3];
        match c.post {
            Some(p) => format!("{}.{}.{}{lp}{}.post{p}", c.core[0], c.core[1], c.core[2], c.n),
            None => format!("{}.{}.{}{lp}{}", c.core[0], c.core[1], c.core[2], c.n),
        }
    } else {
        tag.clone()
    };
    ensure!(out == want, "clean checkout at pre-release tag {tag} yields {out:?}, expected {want:?} ({a:?})");
    Ok(())
}

/// commit post-mode, pre-release base tag of the shapes flow prints: every further commit gives
/// a strictly greater version, starting from the tag itself (0 commits)
fn check_pretag_mono(c: &(PreTagCase, u64, u64), cx: &mut Cx) -> Res {
    let (t, d1, d2) = c;
    let l = ["alpha", "beta", "rc"][t.label as usize % 3];
    let tag = match t.post {
        Some(p) => format!("{}.{}.{}-{l}.{}.post.{p}", t.core[0], t.core[1], t.core[2], t.n),
        None => format!("{}.{}.{}-{l}.{}", t.core[0], t.core[1], t.core[2], t.n),
    };
    let run = |d: u64| {
        let mut a = vec!["--source=none".to_string(), format!("--tag-version={tag}"), "--input-format=semver".into(), format!("--distance={d}"), "--no-dirty".into(), "--post-mode=commit".into(), "--schema=standard-base-prerelease-post".into()];
        if let Some(b) = &t.branch {
            a.push(format!("--bumped-branch={b}"));
        }
        a.push(format!("--output-format={}", if t.pep440 { "pep440" } else { "semver" }));
        (cli::flow(&a, None), a)
    };
    let (r1, a1) = run(*d1);
    let (r2, a2) = run(*d2);
    let (v1, v2) = match (r1, r2) {
        (cli::Run::Ok(x), cli::Run::Ok(y)) => (x, y),
        (cli::Run::Panic(p), _) | (_, cli::Run::Panic(p)) => return fail(format!("flow panicked on {a1:?} / {a2:?}: {p}")),
        _ => return Ok(()), // e.g. a post number that would leave the u32 range
    };
    cx.nt();
    cx.note(|| format!("{tag} +{d1} -> {v1}; +{d2} -> {v2}"));
    if *d1 == 0 {
        // the tag itself takes part only when it is a tag of THIS line: the branch resolves to the
        // tag's own label and number (a tag cut elsewhere, e.g. alpha.1 seen from a branch whose
        // number is 0, is simply a different series)
        let lp = ["a", "b", "rc"][t.label as usize % 3];
        let same_series = if t.pep440 { v2.starts_with(&format!("{}.{}.{}{lp}{}.", t.core[0], t.core[1], t.core[2], t.n)) } else { v2.starts_with(&format!("{}.{}.{}-{l}.{}.", t.core[0], t.core[1], t.core[2], t.n)) };
        if !same_series {
            cx.label("tag-of-another-series");
            return Ok(());
        }
        cx.label("from-the-tag-itself");
    }
    let ord = cmp_out(&v1, &v2, t.pep440)?;
    ensure!(ord == Ordering::Less, "{d1} commits after {tag} give {v1:?}, {d2} commits give {v2:?}: not strictly greater ({a2:?})");
    Ok(())
}

#[derive(Debug, Clone, Hash, Serialize, Deserialize)]
pub struct ChainCase {
    pub tag: [u64; 3],
    pub v_prefix: bool,
    pub branch: Option<usize>,
    pub before: u8,          // commits before the tag
    pub steps: Vec<bool>,    // true = merge a side line, false = plain commit
    pub preset: usize,
    pub hash_len: u32,
    /// rewrite a tracked file with identical bytes (new mtime) before each probe: still a clean checkout
    #[serde(default)]
    pub touch: bool,
    /// the first plain commit after the tag adds a file named exactly like the tag (release notes,
    /// a marker file): a revision argument of that name is ambiguous to git without `--` (F25)
    #[serde(default)]
    pub ref_file: bool,
}
fn check_chain(c: &ChainCase, cx: &mut Cx) -> Res {
    use crate::gitlab::{Op, Repo};
    let mut repo = match Repo::new() {
        Ok(r) => r,
        Err(e) => {
            infra(format!("cannot create repository: {e}"));
            return Ok(());
        }
    };
    let mut run = |repo: &mut Repo, op: Op| -> bool {
        if let Err(e) = repo.apply(&op) {
            infra(format!("git operation failed in the harness: {e}"));
            return false;
        }
        true
    };
    if let Some(b) = c.branch
        && !run(&mut repo, Op::Branch { name: b })
    {
        return Ok(());
    }
    for _ in 0..c.before {
        if !run(&mut repo, Op::Commit { time_skew: 0 }) {
            return Ok(());
        }
    }
    let tag = format!("{}{}.{}.{}", if c.v_prefix { "v" } else { "" }, c.tag[0], c.tag[1], c.tag[2]);
    {
        let mut cmd = std::process::Command::new("git");
        crate::gitlab::git_env(&mut cmd);
        let ok = cmd.current_dir(&repo.dir).args(["tag", &tag]).status().map(|s| s.success()).unwrap_or(false);
        if !ok {
            infra("git tag failed");
            return Ok(());
        }
    }
    if c.touch || c.before % 2 == 1 {
        // the commit also carries pre-release tags of the same release (an rc promoted to final):
        // the final tag is the base
        for twin in [format!("{}{}.{}.{}-rc.1", if c.v_prefix { "v" } else { "" }, c.tag[0], c.tag[1], c.tag[2]), format!("{}.{}.{}rc2", c.tag[0], c.tag[1], c.tag[2])] {
            let mut cmd = std::process::Command::new("git");
            crate::gitlab::git_env(&mut cmd);
            let _ = cmd.current_dir(&repo.dir).args(["tag", &twin]).status();
            repo.log.push(format!("git tag {twin}"));
        }
    }
    let tagged_commit = repo.model.head_commit();
    repo.model.tags.push(crate::gitlab::TagM { name: tag.clone(), commit: tagged_commit, annotated: false });
    let mut ref_file_pending = c.ref_file;
    cx.label_if(c.ref_file && c.steps.iter().any(|m| !*m), "file-named-like-the-tag");
    if c.touch && !(run(&mut repo, Op::TouchUnchanged) && run(&mut repo, Op::EmptyDir)) {
        return Ok(());
    }
    let schema = POST_PRESETS[c.preset % POST_PRESETS.len()];
    let x = format!("{}.{}.{}", c.tag[0], c.tag[1], c.tag[2]);
    cx.nt_if(!c.steps.is_empty());
    cx.label_if(c.touch, "identical-rewrite-before-probe");
    cx.label_if(c.steps.iter().any(|m| *m), "merge-in-chain");
    for pep440 in [false, true] {
        let fmt = if pep440 { "pep440" } else { "semver" };
        let o = crate::proc::run(&crate::proc::Spec {
            args: cli::sv(&["flow", "-C", &repo.path(), "--post-mode", "commit", "--schema", schema, "--output-format", fmt, "--hash-branch-len", &c.hash_len.to_string()]),
            cwd: Some("/".into()),
            ..Default::default()
        });
        ensure!(o.code == Some(0), "flow failed at the tag commit: {}", o.err_str());
        let at_tag = o.out_str().trim_end().to_string();
        let core = if schema.ends_with("-context") && schema != "standard-no-context" { at_tag.split('+').next().unwrap_or("").to_string() } else { at_tag.clone() };
        ensure!(core == x, "clean checkout at tag {tag}: flow prints {at_tag:?}, expected {x} ({fmt}, {schema})");
    }
    if c.touch {
        // a file that only the user's global core.excludesFile ignores is no change either
        let cfg = crate::gitlab::global_excludes_config();
        let f = repo.dir.join("editor-backup.globalign");
        if std::fs::write(&f, "x\n").is_ok() {
            let o = crate::proc::run(&crate::proc::Spec {
                args: cli::sv(&["flow", "-C", &repo.path(), "--post-mode", "commit", "--schema", "standard-no-context", "--output-format", "semver"]),
                cwd: Some("/".into()),
                env: vec![("GIT_CONFIG_GLOBAL".into(), cfg.to_string_lossy().into_owned())],
                ..Default::default()
            });
            let _ = std::fs::remove_file(&f);
            ensure!(o.code == Some(0), "flow failed at the tag commit under a global git configuration: {}", o.err_str());
            ensure!(o.out_str().trim_end() == x, "clean checkout at tag {tag} with an untracked file that the user's global core.excludesFile ignores: flow prints {:?}, expected {x}", o.out_str().trim_end());
            cx.label("global-excludes-file");
        }
    }
    let mut prev: [String; 2] = [x.clone(), x.clone()];
    for (i, merge) in c.steps.iter().enumerate() {
        let op = if *merge {
            Op::Merge { other: 0, third: None, time_skew: -50_000 }
        } else if ref_file_pending {
            ref_file_pending = false;
            Op::FileLikeRef { which: 0, tracked: true }
        } else {
            Op::Commit { time_skew: if i % 2 == 0 { -100_000 } else { 50_000 } }
        };
        if !run(&mut repo, op) {
            return Ok(());
        }
        if c.touch && !run(&mut repo, Op::TouchUnchanged) {
            return Ok(());
        }
        for (k, pep440) in [false, true].into_iter().enumerate() {
            let fmt = if pep440 { "pep440" } else { "semver" };
            let o = crate::proc::run(&crate::proc::Spec {
                args: cli::sv(&["flow", "-C", &repo.path(), "--post-mode", "commit", "--schema", schema, "--output-format", fmt, "--hash-branch-len", &c.hash_len.to_string()]),
                cwd: Some("/".into()),
                ..Default::default()
            });
            ensure!(o.code == Some(0), "flow failed {} commits after the tag: {}", i + 1, o.err_str());
            let v = o.out_str().trim_end().to_string();
            // commit post-mode: the post number is the number of commits since the tag
            {
                let m = &repo.model;
                let head = m.head_commit();
                let tc = tagged_commit;
                let dist = m.ancestors(head).difference(&m.ancestors(tc)).count() as u64;
                let marker = if pep440 { ".post" } else { ".post." };
                if let Some(i) = v.find(marker) {
                    let digits: String = v[i + marker.len()..].chars().take_while(|ch| ch.is_ascii_digit()).collect();
                    ensure!(digits == dist.to_string(), "step {}: {v:?} shows post {digits}, but HEAD is {dist} commits after the tag ({fmt}, {schema}; {})", i + 1, repo.log.join("; "));
                    cx.label("post-equals-distance");
                }
            }
            let ord = cmp_out(&prev[k], &v, pep440)?;
            ensure!(ord == Ordering::Less, "step {} ({}): version did not increase along the first-parent chain: {:?} then {v:?} ({fmt}, {schema}; {})", i + 1, if *merge { "merge" } else { "commit" }, prev[k], repo.log.join("; "));
            cx.note(|| format!("{tag} +{} -> {v}", i + 1));
            prev[k] = v;
        }
    }
    // --- a checkout whose .git is a file (a linked work tree), nested below the main checkout in an
    // ignored directory, holds the commits after the tag; the main checkout goes back to the tag.
    // Run from inside it (no -C) flow describes *that* checkout: the same answer as with -C, above the tag.
    if !c.steps.is_empty() {
        let head = repo.model.commits[repo.model.head_commit()].hash.clone();
        let tagh = repo.model.commits[tagged_commit].hash.clone();
        let wt = repo.dir.join("ignored").join("wt");
        let made = repo.git(&["worktree", "add", "-q", "--detach", "ignored/wt", &head], None).and_then(|_| repo.git(&["checkout", "-q", "--detach", &tagh], None));
        if let Err(e) = made {
            infra(format!("cannot create the linked work tree: {e}"));
            return Ok(());
        }
        for (k, pep440) in [false, true].into_iter().enumerate() {
            let fmt = if pep440 { "pep440" } else { "semver" };
            let base = ["--post-mode", "commit", "--schema", schema, "--output-format", fmt];
            let mut with_c = vec!["flow", "-C", wt.to_str().unwrap_or("")];
            with_c.extend(base);
            let mut inside = vec!["flow"];
            inside.extend(base);
            let a = crate::proc::run(&crate::proc::Spec { args: cli::sv(&with_c), cwd: Some("/".into()), ..Default::default() });
            let b = crate::proc::run(&crate::proc::Spec { args: cli::sv(&inside), cwd: Some(wt.to_string_lossy().into_owned()), ..Default::default() });
            ensure!(a.code == Some(0) && b.code == Some(0), "flow fails in a linked work tree nested below the main checkout: with -C exit {:?} ({}), from inside exit {:?} ({})", a.code, a.err_str().trim(), b.code, b.err_str().trim());
            let (va, vb) = (a.out_str().trim_end().to_string(), b.out_str().trim_end().to_string());
            ensure!(va == vb, "linked work tree nested below the main checkout (main at the tag {tag}, work tree {} commits later): flow prints {vb:?} from inside it and {va:?} with -C ({fmt}, {schema})", c.steps.len());
            let _ = k;
            ensure!(cmp_out(&x, &vb, pep440)? == Ordering::Less, "linked work tree {} commits after the tag {tag}: flow prints {vb:?}, which is not above the tag ({fmt}, {schema})", c.steps.len());
            cx.label("nested-linked-worktree");
        }
    }
    Ok(())
}

pub fn state() -> BoxedStrategy<State> {
    let n = || prop_oneof![3 => 0u64..10, 1 => gens::num::u32_biased().prop_map(|x| x.min(4294967293))];
    (
        (n(), n(), n()),
        proptest::option::weighted(0.9, c04::branch_shapes()),
        proptest::option::weighted(0.85, prop_oneof![2 => Just(0u64), 5 => 1u64..30, 1 => 1u64..1_000_000]),
        prop_oneof![3 => Just(0u8), 2 => Just(1), 1 => Just(2)],
        proptest::option::weighted(0.35, c04::rule_set().prop_map(|v| v.into_iter().filter(oflow::rule_valid).collect::<Vec<_>>())),
        proptest::option::weighted(0.4, any::<bool>()),
        1u32..=9,
    )
        .prop_map(|((a, b, c), branch, distance, dirt, rules, post_mode, hash_len)| State { tag: [a, b, c], branch, distance, dirt, rules, post_mode, hash_len })
        .boxed()
}

pub fn property() -> Property {
    let bounds = RandomSub::<BoundCase>::new(
        "flow-bounds",
        (30_000, 600_000),
        |_| (state(), 0usize..12, any::<bool>()).prop_map(|(s, preset, pep440)| BoundCase { s, preset, pep440 }).boxed(),
        check_bounds,
    )
    .floor(0.3);
    let mono = RandomSub::<MonoCase>::new(
        "commit-monotone",
        (15_000, 300_000),
        |_| (state(), 0u64..40, 0u64..40, 0u8..3, 0usize..7, any::<bool>()).prop_map(|(s, d1, d2, dirt2, preset, pep440)| MonoCase { s, d1, d2, dirt2, preset, pep440 }).boxed(),
        check_mono,
    )
    .floor(0.5);
    let pretag = RandomSub::<PreTagCase>::new(
        "prerelease-tag-fixed",
        (10_000, 200_000),
        |_| {
            (
                (0u64..20, 0u64..20, 0u64..20),
                0u8..3,
                gens::num::u32_biased(),
                proptest::option::weighted(0.5, gens::num::u32_biased()),
                proptest::option::weighted(0.8, c04::branch_shapes()),
                proptest::option::weighted(0.7, 0usize..5),
                any::<bool>(),
                any::<bool>(),
            )
                .prop_map(|((a, b, c), label, n, post, branch, preset, pep440, distance0)| PreTagCase { core: [a, b, c], label, n, post, branch, preset, pep440, distance0 })
                .boxed()
        },
        check_pretag,
    );
    let pretag_mono = RandomSub::<(PreTagCase, u64, u64)>::new(
        "prerelease-tag-monotone",
        (10_000, 200_000),
        |_| {
            (
                (0u64..20, 0u64..20, 0u64..20),
                0u8..3,
                prop_oneof![3 => 0u64..50, 1 => gens::num::u32_biased().prop_map(|x| x.min(4_000_000_000))],
                proptest::option::weighted(0.7, 0u64..1000),
                proptest::option::weighted(0.9, prop_oneof![3 => gens::pick(&["develop", "main", "feature/x", "feature/12/y", "release/3", "hotfix/9", "x"]).prop_map(String::from), 1 => c04::branch_shapes()]),
                any::<bool>(),
                prop_oneof![2 => Just(0u64), 3 => 0u64..6],
                1u64..6,
            )
                .prop_map(|((a, b, c), label, n, post, branch, pep440, d1, step)| {
                    // half of the cases: a tag of the branch's own series (label and number as the
                    // default rules derive them), so that the tag itself takes part
                    let (label, n, branch) = match (a + b + c) % 6 {
                        0 => (0, 12, Some("feature/12/y".to_string())),
                        1 => (2, 3, Some("release/3".to_string())),
                        2 => (0, 7, Some("feature/7".to_string())),
                        _ => (label, n, branch),
                    };
                    (PreTagCase { core: [a, b, c], label, n, post, branch, preset: None, pep440, distance0: false }, d1, d1 + step)
                })
                .boxed()
        },
        check_pretag_mono,
    )
    .floor(0.5);
    let chains = RandomSub::<ChainCase>::new(
        "git-chains",
        (100, 1_500),
        |tier| {
            ((0u64..30, 0u64..30, 0u64..30), any::<bool>(), proptest::option::weighted(0.7, 0usize..10), 0u8..3, proptest::collection::vec(prop::bool::weighted(0.25), 0..tier.pick(6, 12)), 0usize..7, 1u32..=9, prop::bool::weighted(0.4), prop::bool::weighted(0.3))
                .prop_map(|((a, b, c), v_prefix, branch, before, steps, preset, hash_len, touch, ref_file)| ChainCase { tag: [a, b, c], v_prefix, branch, before, steps, preset, hash_len, touch, ref_file })
                .boxed()
        },
        check_chain,
    )
    .shrink_iters(60)
    .floor(0.5);
    Property {
        id: "C03",
        rule: "cases = (final tag X.Y.Z, branch, distance None/0/1..10^6, dirty unset/--dirty/--no-dirty, default or generated valid rule set, post mode, hash length 1..9, standard preset, output format) on source none; pairs of distances in commit post-mode; pre-release tags of the shapes flow emits. Oracle: independent SemVer §11 / PEP 440 comparators: X.Y.Z < V < X.Y.(Z+1) (for standard-base[-context], which print only the core by design: V == X.Y.(Z+1)); clean at tag => exactly the tag; d1 < d2 => V(d1) < V(d2). git-chains: real repositories (native git), one base tag, successive commits/merges on the same branch probed with the real binary. Non-trivial = state not clean-at-tag and the branch is not matched by an exact rule; distance pairs with a positive lower distance or differing dirty state; every pre-release-tag case; distinct = distinct cases.",
        assumptions: vec![
            "tag numbers <= u32::MAX-2 so that the next patch exists in both formats",
            "standard-base and standard-base-context drop the pre-release by documented design; there V == X.Y.(Z+1) is asserted instead of the strict upper bound",
            "PEP 440 order is the public-version order (local build context ignored)",
        ],
        subs: vec![bounds.boxed(), mono.boxed(), pretag.boxed(), pretag_mono.boxed(), chains.boxed()],
        known_repro: vec![],
    }
}
