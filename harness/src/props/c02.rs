//! C02 — git state extraction is faithful to the repository history (DESIGN.md §6 C02),
//! stateful / model-based: op sequences run against a real repository and an in-memory DAG.
use crate::cli;
use crate::gitlab::{self, HeadM, Model, Op, Repo};
use crate::model::MVars;
use crate::oracle::{pep440 as opep, semver as osem};
use crate::proc;
use crate::runner::*;
use proptest::prelude::*;
use serde::{Deserialize, Serialize};
use std::cmp::Ordering;
use std::str::FromStr;

#[derive(Debug, Clone, Hash, Serialize, Deserialize)]
pub struct History {
    pub ops: Vec<(Op, bool)>, // (operation, probe zerv after it)
}

fn sem_valid(t: &str) -> Option<osem::Sem> {
    osem::parse_v(t).filter(osem::all_numbers_fit_u64)
}
fn pep_valid(t: &str) -> Option<opep::Pep> {
    opep::parse(t).filter(|p| opep::numbers_fit_u32(p))
}
fn valid_for(t: &str, fmt: &str) -> bool {
    match fmt {
        "semver" => sem_valid(t).is_some(),
        "pep440" => pep_valid(t).is_some(),
        _ => sem_valid(t).is_some() || pep_valid(t).is_some(),
    }
}

pub fn zerv_at(repo: &str, extra: &[&str]) -> proc::Out {
    let mut args = vec!["version".to_string(), "-C".into(), repo.to_string()];
    args.extend(extra.iter().map(|s| s.to_string()));
    proc::run(&proc::Spec { args, cwd: Some("/".into()), ..Default::default() })
}

/// everything the statement says about one repository state, for one input format
pub fn check_state(repo: &Repo, fmt: &str, cx: &mut Cx) -> Res {
    let m: &Model = &repo.model;
    let head = m.head_commit();
    let anc = m.ancestors(head);
    // V = ancestors-or-self of HEAD carrying >= 1 tag valid for the format
    let valid_commits: Vec<usize> = anc.iter().copied().filter(|c| m.tags.iter().any(|t| t.commit == *c && valid_for(&t.name, fmt))).collect();
    let t0 = std::time::SystemTime::now().duration_since(std::time::UNIX_EPOCH).unwrap().as_secs();
    let o = zerv_at(&repo.path(), &["--input-format", fmt, "--output-format", "zerv"]);
    let t1 = std::time::SystemTime::now().duration_since(std::time::UNIX_EPOCH).unwrap().as_secs();
    if o.timed_out {
        infra("zerv version -C timed out");
        return Ok(());
    }
    let ctx = || format!("format {fmt}; history: {}", repo.log.join("; "));
    if valid_commits.is_empty() {
        cx.label("no-valid-tag");
        ensure!(o.code == Some(1), "no valid {fmt} tag is reachable but zerv exited {:?} with {:?} ({})", o.code, o.out_str(), ctx());
        ensure!(o.stdout.is_empty(), "no valid tag reachable but stdout is {:?}", o.out_str());
        ensure!(o.err_str().contains("No version tags"), "no valid tag reachable; stderr does not say so: {:?}", o.err_str());
        return Ok(());
    }
    ensure!(o.code == Some(0), "zerv failed (exit {:?}: {}) although valid tags are reachable ({})", o.code, o.err_str().trim(), ctx());
    let z = zerv::version::Zerv::from_str(&o.out_str()).map_err(|e| Bad::Fail(format!("output does not parse: {e}")))?;
    let v = MVars::from_zerv(&z.vars);
    // --- tagged commit: nearest
    let lh = v.last_commit_hash.clone().unwrap_or_default();
    let Some(tc) = valid_commits.iter().copied().find(|c| format!("g{}", m.commits[*c].hash) == lh) else {
        return fail(format!("last_commit_hash {lh:?} is not a validly tagged ancestor of HEAD (candidates: {:?}) ({})", valid_commits.iter().map(|c| &m.commits[*c].hash[..8]).collect::<Vec<_>>(), ctx()));
    };
    for u in &valid_commits {
        if *u != tc && m.ancestors(*u).contains(&tc) {
            return fail(format!("chosen tagged commit {} is not nearest: validly tagged commit {} lies between it and HEAD ({})", &m.commits[tc].hash[..8], &m.commits[*u].hash[..8], ctx()));
        }
    }
    // --- tag: valid, on that commit, maximal under the elected format
    let tag = v.last_tag_version.clone().unwrap_or_default();
    let on_t: Vec<&str> = m.tags.iter().filter(|t| t.commit == tc).map(|t| t.name.as_str()).collect();
    ensure!(on_t.contains(&tag.as_str()), "last_tag_version {tag:?} is not a tag on the chosen commit (tags there: {on_t:?}) ({})", ctx());
    ensure!(valid_for(&tag, fmt), "last_tag_version {tag:?} is not valid for format {fmt}");
    let ns = on_t.iter().filter(|t| sem_valid(t).is_some()).count();
    let np = on_t.iter().filter(|t| pep_valid(t).is_some()).count();
    let elected = match fmt {
        "semver" => "semver",
        "pep440" => "pep440",
        _ => if ns >= np { "semver" } else { "pep440" },
    };
    if elected == "semver" {
        let g = sem_valid(&tag).ok_or_else(|| Bad::Fail(format!("auto mode elected SemVer on this commit (tags {on_t:?}) but chose {tag:?}")))?;
        for t in &on_t {
            if let Some(s) = sem_valid(t) {
                ensure!(osem::cmp(&s, &g) != Ordering::Greater, "tag {tag:?} is not the highest on its commit: {t:?} is greater (tags {on_t:?}) ({})", ctx());
            }
        }
    } else {
        let g = pep_valid(&tag).ok_or_else(|| Bad::Fail(format!("auto mode elected PEP 440 on this commit (tags {on_t:?}) but chose {tag:?}")))?;
        for t in &on_t {
            if let Some(s) = pep_valid(t) {
                ensure!(opep::cmp(&s, &g) != Ordering::Greater, "tag {tag:?} is not the highest on its commit: {t:?} is greater (tags {on_t:?}) ({})", ctx());
            }
        }
    }
    // --- distance, dirty, branch, hashes, times
    let dist = anc.difference(&m.ancestors(tc)).count() as u64;
    ensure!(v.distance == Some(dist), "distance {:?}, repository says {dist} ({})", v.distance, ctx());
    ensure!(v.dirty == Some(m.dirty()), "dirty {:?}, work tree says {} (modified {}, staged {}, untracked {}) ({})", v.dirty, m.dirty(), m.modified, m.staged, m.untracked, ctx());
    let want_branch = match &m.head {
        HeadM::Branch(b) => Some(b.clone()),
        HeadM::Detached(_) => None,
    };
    ensure!(v.bumped_branch == want_branch, "bumped_branch {:?}, repository says {want_branch:?} ({})", v.bumped_branch, ctx());
    ensure!(v.bumped_commit_hash == Some(format!("g{}", m.commits[head].hash)), "bumped_commit_hash {:?}, HEAD is {} ({})", v.bumped_commit_hash, m.commits[head].hash, ctx());
    if m.dirty() {
        ensure!(v.bumped_timestamp.is_some_and(|t| t >= t0 && t <= t1), "dirty: bumped_timestamp {:?} not in the wall-clock bracket [{t0},{t1}]", v.bumped_timestamp);
    } else {
        ensure!(v.bumped_timestamp == Some(m.commits[head].time), "bumped_timestamp {:?}, HEAD commit time is {} ({})", v.bumped_timestamp, m.commits[head].time, ctx());
    }
    ensure!(v.last_timestamp == Some(m.commits[tc].time), "last_timestamp {:?}, tagged commit time is {} ({})", v.last_timestamp, m.commits[tc].time, ctx());
    // --- version fields for tags whose reading is the same in every format that accepts them
    if let Some((epoch, core, pre, post, dev)) = expected_fields(&tag) {
        let got = (v.epoch, [v.major, v.minor, v.patch], v.pre_release, v.post, v.dev);
        ensure!(got == (epoch, core, pre, post, dev), "version fields {got:?} do not match tag {tag} (expected {:?})", (epoch, core, pre, post, dev));
        cx.label("fields-checked");
    }
    let plain = tag.strip_prefix('v').unwrap_or(&tag);
    let parts: Vec<&str> = plain.split('.').collect();
    if parts.len() == 3 && parts.iter().all(|p| !p.is_empty() && p.bytes().all(|b| b.is_ascii_digit()) && (*p == "0" || !p.starts_with('0'))) {
        let n: Vec<u64> = parts.iter().map(|p| p.parse().unwrap()).collect();
        ensure!(v.major == Some(n[0]) && v.minor == Some(n[1]) && v.patch == Some(n[2]) && v.pre_release.is_none() && v.post.is_none() && v.dev.is_none(), "version fields {:?}.{:?}.{:?} do not match tag {tag}", v.major, v.minor, v.patch);
    }
    // --- VCS overrides on top of the git source: exactly the overridden variables change
    // (metamorphic: the base run's object with the documented replacement applied)
    {
        let variant = (m.commits.len() * 3 + m.tags.len() + fmt.len() + m.dirty() as usize) % 8;
        let head_time = m.commits[head].time;
        let mut want = v.clone();
        let flags: Vec<&str> = match variant {
            0 => {
                want.distance = None;
                want.dirty = Some(false);
                want.bumped_timestamp = Some(head_time);
                vec!["--clean"]
            }
            1 => {
                want.dirty = Some(false);
                want.bumped_timestamp = Some(head_time);
                vec!["--no-dirty"]
            }
            2 => {
                want.dirty = Some(true);
                want.bumped_timestamp = None; // wall clock, bracketed below
                vec!["--dirty"]
            }
            3 => {
                want.distance = Some(7);
                vec!["--distance", "7"]
            }
            4 => {
                want.bumped_branch = Some("other/branch".into());
                want.bumped_commit_hash = Some("gfeedbeef".into());
                vec!["--bumped-branch", "other/branch", "--bumped-commit-hash", "gfeedbeef"]
            }
            5 => {
                want.distance = Some(0);
                want.dirty = Some(false);
                want.bumped_branch = None;
                want.bumped_commit_hash = None;
                want.bumped_timestamp = None;
                vec!["--no-bump-context"]
            }
            6 => {
                want.bumped_timestamp = if m.dirty() { None } else { Some(86_400 * 365) };
                vec!["--bumped-timestamp", "31536000"]
            }
            _ => {
                want.distance = Some(0);
                want.dirty = Some(false);
                want.bumped_timestamp = Some(head_time);
                vec!["--no-dirty", "--distance", "0"]
            }
        };
        let mut args = vec!["--input-format", fmt, "--output-format", "zerv"];
        args.extend(flags.iter().copied());
        let t0 = std::time::SystemTime::now().duration_since(std::time::UNIX_EPOCH).unwrap().as_secs();
        let o2 = zerv_at(&repo.path(), &args);
        let t1 = std::time::SystemTime::now().duration_since(std::time::UNIX_EPOCH).unwrap().as_secs();
        if o2.timed_out {
            infra("zerv version -C timed out");
            return Ok(());
        }
        ensure!(o2.code == Some(0), "zerv failed with {flags:?} (exit {:?}: {}) ({})", o2.code, o2.err_str().trim(), ctx());
        let z2 = zerv::version::Zerv::from_str(&o2.out_str()).map_err(|e| Bad::Fail(format!("output does not parse: {e}")))?;
        let mut got = MVars::from_zerv(&z2.vars);
        if got.dirty == Some(true) {
            ensure!(got.bumped_timestamp.is_some_and(|t| t >= t0 && t <= t1), "{flags:?}: dirty, but bumped_timestamp {:?} is not in the wall-clock bracket [{t0},{t1}] ({})", got.bumped_timestamp, ctx());
            got.bumped_timestamp = None;
            want.bumped_timestamp = None;
        }
        ensure!(got == want, "{flags:?} on the git source: variables differ from the plain run with the override applied\n  zerv : {got:?}\n  want : {want:?}\n  ({})", ctx());
        cx.label(["override:clean", "override:no-dirty", "override:dirty", "override:distance", "override:branch+hash", "override:no-bump-context", "override:bumped-timestamp", "override:no-dirty+distance0"][variant]);
        cx.extra_evals += 1;
    }
    // --- what git ignores is decided by the user's configuration too: a file excluded only by the
    // global core.excludesFile (editor backups, .DS_Store) is not a change
    if fmt == "auto" {
        let cfg = crate::gitlab::global_excludes_config();
        let f = repo.dir.join("editor-backup.globalign");
        if std::fs::write(&f, "x\n").is_ok() {
            let o3 = proc::run(&proc::Spec {
                args: crate::cli::sv(&["version", "-C", &repo.path(), "--input-format", fmt, "--output-format", "zerv"]),
                cwd: Some("/".into()),
                env: vec![("GIT_CONFIG_GLOBAL".into(), cfg.to_string_lossy().into_owned())],
                ..Default::default()
            });
            let _ = std::fs::remove_file(&f);
            if o3.timed_out {
                infra("zerv version -C timed out");
                return Ok(());
            }
            ensure!(o3.code == Some(0), "zerv failed under a global git configuration with core.excludesFile (exit {:?}: {}) ({})", o3.code, o3.err_str().trim(), ctx());
            let z3 = zerv::version::Zerv::from_str(&o3.out_str()).map_err(|e| Bad::Fail(format!("output does not parse: {e}")))?;
            ensure!(
                z3.vars.dirty == Some(m.dirty()),
                "dirty {:?} with an untracked file that the user's global core.excludesFile ignores; git status is {} ({})",
                z3.vars.dirty,
                if m.dirty() { "dirty for other reasons" } else { "clean" },
                ctx()
            );
            // the same configuration sets column.ui / color.ui = always, tag.sort, log.decorate,
            // status.short / status.branch: display settings, so every other fact is as in the plain run
            let (mut a, mut b) = (z3.vars.clone(), z.vars.clone());
            a.dirty = None;
            b.dirty = None;
            // tag.sort changes the order in which git lists a commit's tags: among several names of one
            // version (1.2.3+build.5 / 1.2.3+build.6) either is a highest tag; the version fields decide
            a.last_tag_version = None;
            b.last_tag_version = None;
            if z.vars.dirty == Some(true) || z3.vars.dirty == Some(true) {
                a.bumped_timestamp = None;
                b.bumped_timestamp = None;
            }
            ensure!(a == b, "under a user configuration with column.ui / color.ui = always, tag.sort, log.decorate, status.short the extracted facts differ from the plain run\n  plain : {b:?}\n  config: {a:?}\n  ({})", ctx());
            cx.label("global-excludes-file");
            cx.extra_evals += 1;
        }
    }
    // --- source equivalence (clock-free states): the object extracted from git, piped into
    // `--source stdin`, gives what the git source gives directly, for version with a schema and for flow
    if !m.dirty() {
        let variant = (m.commits.len() + 2 * m.tags.len() + fmt.len()) % 4;
        let ron = o.out_str();
        let run_stdin = |args: &[&str]| proc::run(&proc::Spec { args: args.iter().map(|s| s.to_string()).collect(), stdin: Some(ron.clone().into_bytes()), cwd: Some("/".into()), ..Default::default() });
        let path = repo.path();
        let (direct, piped, what): (proc::Out, proc::Out, String) = match variant {
            0 | 1 => {
                let schema = ["standard", "calver", "standard-base-prerelease-post-dev-context", "calver-no-context", "standard-context", "calver-base-prerelease-post-dev"][(m.commits.len() + m.tags.len()) % 6];
                let of = if variant == 0 { "semver" } else { "pep440" };
                (
                    proc::run(&proc::Spec { args: cli::sv(&["version", "-C", &path, "--input-format", fmt, "--schema", schema, "--output-format", of]), cwd: Some("/".into()), ..Default::default() }),
                    run_stdin(&["version", "--source", "stdin", "--schema", schema, "--output-format", of]),
                    format!("version --schema {schema} --output-format {of}"),
                )
            }
            2 => (
                proc::run(&proc::Spec { args: cli::sv(&["flow", "-C", &path, "--input-format", fmt, "--post-mode", "commit", "--output-format", "zerv"]), cwd: Some("/".into()), ..Default::default() }),
                run_stdin(&["flow", "--source", "stdin", "--post-mode", "commit", "--output-format", "zerv"]),
                "flow --post-mode commit --output-format zerv".to_string(),
            ),
            _ => (
                proc::run(&proc::Spec { args: cli::sv(&["flow", "-C", &path, "--input-format", fmt, "--post-mode", "commit", "--output-format", "semver"]), cwd: Some("/".into()), ..Default::default() }),
                run_stdin(&["flow", "--source", "stdin", "--post-mode", "commit", "--output-format", "semver"]),
                "flow --post-mode commit --output-format semver".to_string(), // (tag post-mode stamps the wall clock when ahead of the tag)
            ),
        };
        if direct.timed_out || piped.timed_out {
            infra("zerv timed out");
            return Ok(());
        }
        ensure!(
            direct.code == piped.code && direct.out_str() == piped.out_str(),
            "`{what}` on the git source (exit {:?}) prints {:?}; on the object extracted from the same repository and piped into --source stdin (exit {:?}) it prints {:?} ({})",
            direct.code, direct.out_str(), piped.code, piped.out_str(), ctx()
        );
        cx.label(["source-equivalence:version-semver", "source-equivalence:version-pep440", "source-equivalence:flow-zerv", "source-equivalence:flow-semver"][variant]);
        cx.extra_evals += 1;
    }
    // classification
    let nt = m.merges > 0 && anc.iter().any(|c| m.commits[*c].parents.len() > 1)
        || on_t.len() >= 2
        || m.tags.iter().any(|t| !anc.contains(&t.commit))
        || m.tags.iter().any(|t| !valid_for(&t.name, fmt) && anc.contains(&t.commit) && m.ancestors(t.commit).contains(&tc) && t.commit != tc)
        || matches!(m.head, HeadM::Detached(_))
        || m.tags.iter().any(|t| t.annotated && t.commit == tc)
        || m.dirty();
    cx.nt_if(nt);
    cx.label_if(anc.iter().any(|c| m.commits[*c].parents.len() > 1), "merge-in-ancestry");
    cx.label_if(on_t.len() >= 2, ">=2-tags-on-chosen");
    cx.label_if(m.tags.iter().any(|t| !anc.contains(&t.commit)), "unreachable-tag");
    cx.label_if(matches!(m.head, HeadM::Detached(_)), "detached");
    cx.label_if(m.dirty(), "dirty");
    cx.label_if(m.tags.iter().any(|t| t.annotated && t.commit == tc), "annotated");
    cx.label_if(dist > 0, "distance>0");
    cx.note(|| format!("{fmt}: tag {tag} on {} distance {dist} dirty {} branch {:?}; {} commits, {} tags", &m.commits[tc].hash[..8], m.dirty(), want_branch, m.commits.len(), m.tags.len()));
    Ok(())
}

type Fields = (Option<u64>, [Option<u64>; 3], Option<(u8, Option<u64>)>, Option<u64>, Option<u64>);
/// fields by construction for the tag names of gitlab::TAGS that SemVer and PEP 440 read alike
/// (or that only one of them accepts)
fn expected_fields(tag: &str) -> Option<Fields> {
    let s = |a: u64, b: u64, c: u64| [Some(a), Some(b), Some(c)];
    if let Some(n) = tag.strip_prefix("v0.").and_then(|r| r.strip_suffix(".0")).and_then(|m| m.parse::<u64>().ok()) {
        return Some((None, s(0, n, 0), None, None, None));
    }
    Some(match tag {
        "1.0.0-rc.1" => (None, s(1, 0, 0), Some((2, Some(1))), None, None),
        "1.0.0-alpha.1" => (None, s(1, 0, 0), Some((0, Some(1))), None, None),
        "v1.0.0-beta.2" => (None, s(1, 0, 0), Some((1, Some(2))), None, None),
        "2.0.0-rc.1.post.3" => (None, s(2, 0, 0), Some((2, Some(1))), Some(3), None),
        "1.2.3+build.5" => (None, s(1, 2, 3), None, None, None),
        "1.0" => (None, [Some(1), Some(0), None], None, None, None),
        "1.0a1" => (None, [Some(1), Some(0), None], Some((0, Some(1))), None, None),
        "2!1.0" => (Some(2), [Some(1), Some(0), None], None, None, None),
        "1.0.post1" => (None, [Some(1), Some(0), None], None, Some(1), None),
        "1.0.0.dev3" => (None, s(1, 0, 0), None, None, Some(3)),
        "v3.1" => (None, [Some(3), Some(1), None], None, None, None),
        "1.2.3.4" => (None, s(1, 2, 3), None, None, None),
        "3.0.0rc1" => (None, s(3, 0, 0), Some((2, Some(1))), None, None),
        "01.02.03" => (None, s(1, 2, 3), None, None, None),
        "v1.2.3.post1" => (None, s(1, 2, 3), None, Some(1), None),
        "V1.2.3" => (None, s(1, 2, 3), None, None, None),
        "4.0.0-RC.1" => (None, s(4, 0, 0), Some((2, Some(1))), None, None),
        _ => return None,
    })
}

pub fn op_strategy() -> BoxedStrategy<Op> {
    let skew = || prop_oneof![2 => Just(0i64), 2 => -300_000i64..300_000];
    prop_oneof![
        6 => skew().prop_map(|time_skew| Op::Commit { time_skew }),
        2 => (0usize..10).prop_map(|name| Op::Branch { name }),
        2 => (0usize..6).prop_map(|branch| Op::Checkout { branch }),
        1 => (0usize..30).prop_map(|commit| Op::Detach { commit }),
        3 => (0usize..6, proptest::option::weighted(0.2, 0usize..6), skew()).prop_map(|(other, third, time_skew)| Op::Merge { other, third, time_skew }),
        7 => (0usize..crate::gitlab::TAGS.len(), any::<bool>(), proptest::option::weighted(0.3, 0usize..30)).prop_map(|(name, annotated, at)| Op::Tag { name, annotated, at }),
        1 => (0usize..crate::gitlab::TAGS.len()).prop_map(|name| Op::TagUnreachable { name }),
        1 => (0usize..8).prop_map(|which| Op::DeleteTag { which }),
        1 => Just(Op::DirtyModify),
        1 => Just(Op::DirtyMode),
        1 => Just(Op::DirtyStage),
        1 => Just(Op::DirtyUntracked),
        1 => Just(Op::IgnoredOnly),
        1 => Just(Op::Clean),
        1 => Just(Op::TouchUnchanged),
        1 => Just(Op::EmptyDir),
        1 => (0usize..8).prop_map(|which| Op::BranchLikeTag { which }),
        1 => (0usize..8, any::<bool>()).prop_map(|(which, tracked)| Op::FileLikeRef { which, tracked }),
        1 => any::<bool>().prop_map(|gc| Op::Repack { gc }),
        1 => any::<bool>().prop_map(|blob| Op::TagNonCommit { blob }),
        1 => (0usize..6, 0usize..30).prop_map(|(kind, at)| Op::ForeignRef { kind, at }),
        1 => (proptest::option::weighted(0.6, 0usize..crate::gitlab::TAGS.len()), skew()).prop_map(|(tag, time_skew)| Op::OrphanMerge { tag, time_skew }),
    ]
    .boxed()
}

fn check_history(h: &History, cx: &mut Cx) -> Res {
    let mut repo = Repo::new().map_err(|e| {
        infra(format!("cannot create repository: {e}"));
        Bad::Fail(format!("infrastructure: {e}"))
    })?;
    let n = h.ops.len();
    for (i, (op, probe)) in h.ops.iter().enumerate() {
        if let Err(e) = repo.apply(op) {
            infra(format!("git operation failed in the harness: {e}"));
            return Ok(());
        }
        if *probe || i + 1 == n {
            for fmt in ["auto", "semver", "pep440"] {
                check_state(&repo, fmt, cx)?;
            }
        }
    }
    if n == 0 {
        for fmt in ["auto", "semver", "pep440"] {
            check_state(&repo, fmt, cx)?;
        }
    }
    Ok(())
}

/// repositories with well over a hundred tagged commits, HEAD on an old line
fn many_tags_history() -> BoxedStrategy<History> {
    (110u32..170, 0u32..60, 0usize..3, proptest::collection::vec(op_strategy(), 0..4))
        .prop_map(|(n, back, extra_commits, tail)| {
            let mut ops: Vec<(Op, bool)> = Vec::new();
            for i in 0..n {
                ops.push((Op::Commit { time_skew: 0 }, false));
                // now and then a commit without a release, or with a non-version marker
                if i % 17 != 5 {
                    ops.push((Op::TagNumbered { n: i }, false));
                }
            }
            // an old release line: detach far back (commit index counts from the root), then work there
            let target = (n.saturating_sub(40 + back)).max(1) as usize;
            ops.push((Op::Detach { commit: target }, true));
            ops.push((Op::Branch { name: 0 }, false));
            for _ in 0..extra_commits {
                ops.push((Op::Commit { time_skew: 0 }, false));
            }
            ops.extend(tail.into_iter().map(|o| (o, false)));
            History { ops }
        })
        .boxed()
}

pub fn property() -> Property {
    let many = RandomSub::<History>::new("many-tags", (6, 60), |_| many_tags_history(), check_history).shrink_iters(4);
    let hist = RandomSub::<History>::new(
        "git-histories",
        (500, 8_000),
        |tier| proptest::collection::vec((op_strategy(), prop::bool::weighted(0.2)), 0..tier.pick(14, 40)).prop_map(|ops| History { ops }).boxed(),
        check_history,
    )
    .shrink_iters(150)
    .floor(0.4);
    let _ = gitlab::TAGS;
    Property {
        id: "C02",
        rule: "cases = op sequences (commit with skewed committer dates, create/checkout branch, detach at any commit, --no-ff merges incl. octopus, lightweight/annotated tags at HEAD or any earlier commit with SemVer / v-prefixed / PEP 440-only / both-format / pre-release / non-version names incl. equal-version spellings, tag on an unreachable side line, delete tag, modify/stage/untracked/ignored-only dirt, clean) executed in a real repository and in an in-memory DAG model; `zerv version -C repo --output-format zerv` is probed after ~20% of the ops and at the end, for input formats auto, semver, pep440 (each probe is one evaluation of three runs). Oracle: ground truth by construction (model ancestors/distance/tags/dirt) + independent version comparators. Non-trivial = a valid tag is reachable and (merge in HEAD's ancestry | >=2 tags on the chosen commit | a tag unreachable from HEAD | a non-version tag nearer than the chosen one | detached HEAD | annotated tag chosen | dirty tree); distinct = distinct histories.",
        assumptions: vec![
            "git 2.39.5 as installed; no shallow clones, submodules, worktrees or replace refs",
            "auto mode elects, per commit, the format that parses more of its tags (SemVer on ties), as the anchor documents",
            "version fields are compared only for plain X.Y.Z tags (how other tag strings are read is C07-C09)",
            "dirty => bumped_timestamp is the wall clock (bracketed)",
        ],
        subs: vec![hist.boxed(), many.boxed()],
        known_repro: vec![],
    }
}
