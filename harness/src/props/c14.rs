//! C14 — output is deterministic and independent of the environment (DESIGN.md §6 C14).
use crate::gens;
use crate::gens::zervgen as zg;
use crate::gitlab::{Op, Repo};
use crate::model::*;
use crate::proc;
use crate::props::c02;
use crate::runner::*;
use proptest::prelude::*;
use serde::{Deserialize, Serialize};

fn now() -> u64 {
    std::time::SystemTime::now().duration_since(std::time::UNIX_EPOCH).unwrap().as_secs()
}
fn mask_clock(s: &str, t0: u64, t1: u64) -> String {
    let b = s.as_bytes();
    let mut out = String::new();
    let mut i = 0;
    while i < b.len() {
        if b[i].is_ascii_digit() {
            let st = i;
            while i < b.len() && b[i].is_ascii_digit() {
                i += 1;
            }
            let run = &s[st..i];
            if run.len() == 10 && run.parse::<u64>().is_ok_and(|v| v + 2 >= t0 && v <= t1 + 2) {
                out.push_str("<now>");
            } else {
                out.push_str(run);
            }
        } else {
            let ch = s[i..].chars().next().unwrap();
            out.push(ch);
            i += ch.len_utf8();
        }
    }
    out
}

/// environment variants: (label, env overrides, cwd)
fn environments(alt_cwd: &str) -> Vec<(&'static str, Vec<(String, String)>, Option<String>)> {
    let e = |k: &str, v: &str| (k.to_string(), v.to_string());
    let mut unrelated: Vec<(String, String)> = (0..50).map(|i| (format!("ZV_UNRELATED_{i}"), format!("value-{i}-é"))).collect();
    unrelated.extend([e("HOME", "/root"), e("USER", "someone"), e("TERM", "xterm-256color"), e("COLUMNS", "3"), e("LINES", "2"), e("NO_COLOR", "1"), e("CLICOLOR_FORCE", "1"), e("SOURCE_DATE_EPOCH", "1"), e("GIT_DIR_UNUSED", "x")]);
    vec![
        ("tz-kiritimati", vec![e("TZ", "Pacific/Kiritimati")], None),
        ("tz-pago-pago", vec![e("TZ", "Pacific/Pago_Pago")], None),
        ("tz-kolkata", vec![e("TZ", "Asia/Kolkata")], None),
        ("tz-posix+14", vec![e("TZ", "<+14>-14")], None),
        ("tz-posix-11", vec![e("TZ", "XXX11")], None),
        ("tz-unset", vec![e("TZ", "\u{0}UNSET")], None),
        ("lang-c-utf8", vec![e("LANG", "C.UTF-8"), e("LC_ALL", "C.UTF-8")], None),
        ("lang-tr", vec![e("LANG", "tr_TR.UTF-8"), e("LC_ALL", "tr_TR.UTF-8"), e("LANGUAGE", "tr")], None),
        ("lang-unset", vec![e("LANG", "\u{0}UNSET")], None),
        ("other-cwd", vec![], Some(alt_cwd.to_string())),
        ("unrelated-vars", unrelated, None),
        ("repeat", vec![], None),
        // variables zerv never reads whose value / name is not valid UTF-8 (Latin-1 text, a stray byte)
        ("non-utf8-value", vec![e("ZV_NOTE", "\u{0}HEX:636166e9"), e("EDITOR_HINT", "\u{0}HEX:fffe"), e("LESSCHARSET", "\u{0}HEX:6c6174696e31ff")], None),
        ("non-utf8-name", vec![e("\u{0}HEX:4e4f5445e9", "x")], None),
        // git's message catalogues: what zerv reads from git must not depend on the message language
        // (stdout and status only: a diagnostic may quote git's own, translated, message)
        ("msg-language-de", vec![e("LANG", "C.UTF-8"), e("LC_ALL", "C.UTF-8"), e("LANGUAGE", "de:fr")], None),
    ]
}

fn compare_all(base_spec: &proc::Spec, alt_cwd: &str, clocked_ok: bool, cx: &mut Cx) -> Res {
    let t0 = now();
    let base = proc::run(base_spec);
    if base.timed_out {
        infra("zerv timed out");
        return Ok(());
    }
    let mut runs = 1u64;
    for (label, env, cwd) in environments(alt_cwd) {
        let mut spec = base_spec.clone();
        spec.env.extend(env);
        if let Some(c) = cwd {
            spec.cwd = Some(c);
        }
        let o = proc::run(&spec);
        runs += 1;
        let t1 = now();
        let (a, b) = if clocked_ok { (mask_clock(&base.out_str(), t0, t1), mask_clock(&o.out_str(), t0, t1)) } else { (base.out_str(), o.out_str()) };
        ensure!(o.code == base.code, "[{label}] exit status {:?} differs from the baseline {:?} for {:?}", o.code, base.code, base_spec.args);
        ensure!(a == b, "[{label}] stdout differs from the baseline (TZ=UTC, LANG=C):\n  baseline: {:?}\n  {label}: {:?}\n  args: {:?}", base.out_str(), o.out_str(), base_spec.args);
        let (ea, eb) = if clocked_ok { (mask_clock(&base.err_str(), t0, t1), mask_clock(&o.err_str(), t0, t1)) } else { (base.err_str(), o.err_str()) };
        ensure!(ea == eb || label.starts_with("msg-"), "[{label}] stderr differs from the baseline:\n  baseline: {:?}\n  {label}: {:?}", base.err_str(), o.err_str());
    }
    // RUST_LOG: stdout and status only
    let mut spec = base_spec.clone();
    spec.env.push(("RUST_LOG".into(), "debug".into()));
    let o = proc::run(&spec);
    runs += 1;
    let t1 = now();
    ensure!(o.code == base.code && (if clocked_ok { mask_clock(&o.out_str(), t0, t1) == mask_clock(&base.out_str(), t0, t1) } else { o.out_str() == base.out_str() }), "[RUST_LOG=debug] stdout/status differ from the baseline: {:?} vs {:?}", o.out_str(), base.out_str());
    // concurrent invocations
    let outs: Vec<proc::Out> = std::thread::scope(|s| (0..3).map(|_| s.spawn(|| proc::run(base_spec))).collect::<Vec<_>>().into_iter().map(|h| h.join().unwrap()).collect());
    let t1 = now();
    for o in outs {
        runs += 1;
        let (a, b) = if clocked_ok { (mask_clock(&base.out_str(), t0, t1), mask_clock(&o.out_str(), t0, t1)) } else { (base.out_str(), o.out_str()) };
        ensure!(o.code == base.code && a == b, "concurrent invocation differs from the baseline: {:?} vs {:?}", o.out_str(), base.out_str());
    }
    cx.extra_evals = runs - 1;
    cx.label_if(base.code == Some(0), "succeeded");
    cx.note(|| format!("{:?} -> {:?} (x{} environments)", base_spec.args, base.out_str().trim_end(), runs));
    Ok(())
}

const TIME_TEMPLATES: [&str; 14] = [
    "{{ format_timestamp(value=bumped_timestamp, format=\"%Y-%m-%dT%H:%M:%S\") }}",
    "{{ format_timestamp(value=bumped_timestamp, format=\"%H\") }}.{{ format_timestamp(value=last_timestamp, format=\"%d\") }}",
    "{{ format_timestamp(value=bumped_timestamp, format=\"compact_datetime\") }}",
    "{{ format_timestamp(value=bumped_timestamp, format=\"%a %b %e %Z %z\") }}",
    "{{ hash(value=bumped_branch, length=12) }}-{{ hash_int(value=bumped_branch, length=9) }}",
    "{{ hash_int(value=bumped_commit_hash, length=10, allow_leading_zero=true) }}",
    "{{ semver }} {{ pep440 }} {{ bumped_timestamp }}",
    "{{ format_timestamp(value=bumped_timestamp, format=\"%W %U %j\") }}",
    "{{ hash(value=custom | json_encode(), length=16) }}",
    "{{ bumped_branch | upper }}/{{ bumped_branch | lower }}/{{ bumped_branch | title }}",
    // lengths beyond one 64-bit digest / beyond what the function documents
    "{{ hash(value=bumped_branch, length=17) }} {{ hash(value=bumped_branch, length=40) }}",
    "{{ hash(value=bumped_commit_hash, length=64) }}|{{ hash(value=bumped_commit_hash, length=64) }}",
    "{{ hash_int(value=bumped_branch, length=19) }} {{ hash_int(value=bumped_branch, length=30, allow_leading_zero=true) }}",
    "{{ prefix(value=bumped_commit_hash, length=100) }} {{ sanitize(value=bumped_branch, preset=\"dotted\") }} {{ prefix_if(value=bumped_branch, prefix=\"+\") }}",
];

#[derive(Debug, Clone, Hash, Serialize, Deserialize)]
pub struct StdinCase {
    pub z: MZerv,
    pub render: u8, // 0 semver 1 pep440 2 zerv 3 template
    pub template: usize,
    pub preset: Option<usize>,
    pub flow: bool,
    /// clock-free extra flags, one bit each: 1 --no-bump-context, 2 --clean, 4 --no-dirty,
    /// 8 --tag-version, 16 --bumped-timestamp, 32 --bump-minor, 64 --source none instead of stdin
    #[serde(default)]
    pub extra: u8,
    /// which of bumped_timestamp / last_timestamp the object lacks (bit 1 / bit 2)
    #[serde(default)]
    pub unset: u8,
}
fn day_edge_ts() -> BoxedStrategy<u64> {
    // within 14 h of a day boundary, so that any local-time use changes a printed field
    (0u64..84000, prop_oneof![0u64..50400, 36000u64..86400]).prop_map(|(d, s)| d * 86400 + s).boxed()
}
fn stdin_case() -> BoxedStrategy<StdinCase> {
    (zg::mzerv(false), day_edge_ts(), day_edge_ts(), 0u8..4, 0usize..14, proptest::option::weighted(0.5, 0usize..22), prop::bool::weighted(0.25), prop_oneof![2 => Just(0u8), 3 => 0u8..128], prop_oneof![3 => Just(0u8), 1 => 1u8..4])
        .prop_map(|(mut z, t1, t2, render, template, preset, flow, extra, unset)| {
            // no wall-clock path in this check: a dirty state replaces the timestamp by "now"
            // (bracketed in C02/C04/C06), so every compared run here is clock-free and must be identical
            if z.vars.dirty == Some(true) {
                z.vars.dirty = Some(false);
            }
            z.vars.bumped_timestamp = if unset & 1 != 0 { None } else { Some(t1) };
            z.vars.last_timestamp = if unset & 2 != 0 { None } else { Some(t2) };
            // --clean conflicts with --no-dirty; flow takes no --tag-version-less source none
            let extra = if extra & 2 != 0 { extra & !4 } else { extra };
            if z.vars.bumped_branch.is_none() {
                z.vars.bumped_branch = Some("feature/x".into());
            }
            // make sure something time-derived is in the schema
            z.schema.build.push(MComp::Var(MVar::Ts("HH".into())));
            z.schema.build.push(MComp::Var(MVar::Ts("compact_date".into())));
            StdinCase { z, render, template, preset, flow, extra, unset }
        })
        .boxed()
}
fn check_stdin(c: &StdinCase, cx: &mut Cx) -> Res {
    let Ok(zerv) = c.z.to_zerv() else { return fail("harness bug: invalid object") };
    let source_none = c.extra & 64 != 0;
    let mut args = vec![if c.flow { "flow".to_string() } else { "version".to_string() }, if source_none { "--source=none".into() } else { "--source=stdin".to_string() }];
    for (bit, flags) in [
        (1u8, &["--no-bump-context"][..]),
        (2, &["--clean"][..]),
        (4, &["--no-dirty"][..]),
        (16, &["--bumped-timestamp=86399"][..]),
        (32, &["--bump-minor"][..]),
    ] {
        if c.extra & bit != 0 && !(c.flow && (bit == 1 || bit == 32)) {
            args.extend(flags.iter().map(|s| s.to_string()));
        }
    }
    if c.extra & 8 != 0 || source_none {
        args.push("--tag-version=3.2.1-rc.4".into());
        args.push("--input-format=semver".into());
    }
    if source_none && c.flow {
        args.push("--bumped-branch=feature/x".into());
    }
    if let Some(p) = c.preset {
        args.push(format!("--schema={}", if c.flow { zg::PRESETS[p % 11] } else { zg::PRESETS[p % 22] }));
    }
    match c.render {
        0 => args.push("--output-format=semver".into()),
        1 => args.push("--output-format=pep440".into()),
        2 => args.push("--output-format=zerv".into()),
        _ => args.push(format!("--output-template={}", TIME_TEMPLATES[c.template % TIME_TEMPLATES.len()])),
    }
    if c.flow {
        args.push("--post-mode=commit".into());
    }
    if !args.iter().all(|a| proc::argv_safe(a)) {
        return Ok(());
    }
    cx.nt();
    let clocked = false;
    cx.label_if(c.flow, "flow");
    cx.label_if(c.extra & 1 != 0, "--no-bump-context");
    cx.label_if(source_none, "source-none");
    cx.label_if(c.unset != 0, "a-timestamp-unset");
    let spec = proc::Spec { args, stdin: if source_none { None } else { Some(zerv.to_string().into_bytes()) }, cwd: Some("/".into()), ..Default::default() };
    compare_all(&spec, "/usr", clocked, cx)
}

#[derive(Debug, Clone, Hash, Serialize, Deserialize)]
pub struct GitCase {
    pub ops: Vec<Op>,
    pub flow: bool,
    pub render: u8,
    pub template: usize,
    pub preset: Option<usize>,
    /// 0: clean work tree; 1: untracked file + --no-dirty; 2: modified file + --clean
    /// (a dirty state switched off by a flag is clock-free as well)
    #[serde(default)]
    pub dirty_override: u8,
}
fn check_git(c: &GitCase, cx: &mut Cx) -> Res {
    let mut repo = match Repo::new() {
        Ok(r) => r,
        Err(e) => {
            infra(format!("cannot create repository: {e}"));
            return Ok(());
        }
    };
    for op in &c.ops {
        if let Err(e) = repo.apply(op) {
            infra(format!("git operation failed in the harness: {e}"));
            return Ok(());
        }
    }
    let mut args = vec![if c.flow { "flow".to_string() } else { "version".to_string() }, "-C".into(), repo.path()];
    if let Some(p) = c.preset {
        args.push(format!("--schema={}", if c.flow { zg::PRESETS[p % 11] } else { zg::PRESETS[p % 22] }));
    }
    match c.render {
        0 => args.push("--output-format=semver".into()),
        1 => args.push("--output-format=pep440".into()),
        2 => args.push("--output-format=zerv".into()),
        _ => args.push(format!("--output-template={}", TIME_TEMPLATES[c.template % TIME_TEMPLATES.len()])),
    }
    if c.flow {
        args.push("--post-mode=commit".into());
    }
    match c.dirty_override {
        1 => args.push("--no-dirty".into()),
        2 => args.push("--clean".into()),
        _ => {}
    }
    cx.nt();
    let clocked = false;
    cx.label_if(c.flow, "flow");
    cx.label("git-source");
    cx.label_if(c.dirty_override != 0, "dirty-tree-switched-off-by-flag");
    let spec = proc::Spec { args: args.clone(), cwd: Some("/".into()), ..Default::default() };
    compare_all(&spec, "/usr", clocked, cx)?;
    {
        // the same command a good second later: nothing here may come from the wall clock (the
        // work tree is clean, or its dirty state is switched off by a flag)
        let first = proc::run(&spec);
        std::thread::sleep(std::time::Duration::from_millis(1100));
        let later = proc::run(&spec);
        ensure!(first.code == later.code && first.stdout == later.stdout, "the same command 1.1 s later prints something else (clock-free state: {}): {:?} vs {:?} (args {args:?}; history: {})", if c.dirty_override != 0 { "dirty tree switched off by a flag" } else { "clean tree" }, first.out_str(), later.out_str(), repo.log.join("; "));
    }
    // without -C from inside the repository: same output as with -C from elsewhere
    let t0 = now();
    let with_c = proc::run(&spec);
    let mut inside_args: Vec<String> = args.iter().filter(|a| *a != "-C" && **a != repo.path()).cloned().collect();
    inside_args.retain(|a| a != "-C");
    let inside = proc::run(&proc::Spec { args: inside_args, cwd: Some(repo.path()), ..Default::default() });
    let t1 = now();
    let m = |s: String| if clocked { mask_clock(&s, t0, t1) } else { s };
    ensure!(inside.code == with_c.code && m(inside.out_str()) == m(with_c.out_str()), "running inside the repository differs from -C: {:?} vs {:?}", inside.out_str(), with_c.out_str());
    Ok(())
}

/// classes of tags that compare equal (same precedence) but are spelled differently
const EQUAL_CLASSES: [&[&str]; 6] = [
    &["1.2.3", "v1.2.3", "1.2.3+linux", "1.2.3+darwin", "v1.2.3+b.7"],
    &["1.2", "1.2.0", "v1.2", "1.2.0.0", "01.2"],
    &["2.0.0-rc.1", "v2.0.0-rc.1", "2.0.0-rc.1+x", "2.0.0-rc.1+y.z"],
    &["1.0a1", "1.0.0a1", "1.0-alpha.1", "v1.0.alpha1", "1.0A1"],
    &["3.1.post2", "3.1.0-2", "3.1-r2", "v3.1.post.2"],
    &["1.0.0+a", "1.0.0+b", "1.0.0+c", "1.0.0+d", "1.0.0"],
];
#[derive(Debug, Clone, Hash, Serialize, Deserialize)]
pub struct EqualTagsCase {
    pub class: usize,
    pub picks: Vec<usize>,
    pub commits_after: u8,
    pub render: u8, // 0 zerv 1 semver 2 pep440 3 template
    pub input_format: u8,
}
fn check_equal_tags(c: &EqualTagsCase, cx: &mut Cx) -> Res {
    let mut repo = match Repo::new() {
        Ok(r) => r,
        Err(e) => {
            infra(format!("cannot create repository: {e}"));
            return Ok(());
        }
    };
    let class = EQUAL_CLASSES[c.class % EQUAL_CLASSES.len()];
    let mut names: Vec<&str> = Vec::new();
    for p in &c.picks {
        let n = class[p % class.len()];
        if !names.contains(&n) {
            names.push(n);
        }
    }
    for n in &names {
        let mut cmd = std::process::Command::new("git");
        crate::gitlab::git_env(&mut cmd);
        if !cmd.current_dir(&repo.dir).args(["tag", n]).status().map(|s| s.success()).unwrap_or(false) {
            infra("git tag failed");
            return Ok(());
        }
    }
    for _ in 0..c.commits_after {
        if let Err(e) = repo.apply(&Op::Commit { time_skew: 0 }) {
            infra(format!("git operation failed in the harness: {e}"));
            return Ok(());
        }
    }
    let mut args = vec!["version".to_string(), "-C".into(), repo.path(), format!("--input-format={}", ["auto", "semver", "pep440"][c.input_format as usize % 3])];
    match c.render % 4 {
        0 => args.push("--output-format=zerv".into()),
        1 => args.push("--output-format=semver".into()),
        2 => args.push("--output-format=pep440".into()),
        _ => args.push("--output-template={{ last_tag_version }}|{{ pep440 }}|{{ semver }}".into()),
    }
    cx.nt_if(names.len() >= 2);
    cx.label("equal-tags");
    let spec = proc::Spec { args: args.clone(), cwd: Some("/".into()), ..Default::default() };
    let base = proc::run(&spec);
    // 15 further processes, 5 at a time: every one must print what the first printed
    let mut runs = 1u64;
    for _ in 0..3 {
        let outs: Vec<proc::Out> = std::thread::scope(|s| (0..5).map(|_| s.spawn(|| proc::run(&spec))).collect::<Vec<_>>().into_iter().map(|h| h.join().unwrap()).collect());
        for o in outs {
            runs += 1;
            ensure!(o.code == base.code && o.stdout == base.stdout, "identical invocations on an unchanged repository (tags {names:?} on one commit) print different results: {:?} vs {:?} (args {args:?})", base.out_str(), o.out_str());
        }
    }
    cx.extra_evals = runs - 1;
    cx.note(|| format!("tags {names:?} -> {:?} x{runs}", base.out_str().chars().take(80).collect::<String>()));
    Ok(())
}

pub fn property() -> Property {
    let equal_tags = RandomSub::<EqualTagsCase>::new(
        "equal-tags-repeat",
        (48, 600),
        |_| (0usize..6, proptest::collection::vec(0usize..5, 2..5), 0u8..3, 0u8..4, 0u8..3).prop_map(|(class, picks, commits_after, render, input_format)| EqualTagsCase { class, picks, commits_after, render, input_format }).boxed(),
        check_equal_tags,
    )
    .shrink_iters(20)
    .floor(0.5);
    let stdin = RandomSub::<StdinCase>::new("env-matrix-stdin", (600, 6_000), |_| stdin_case(), check_stdin).shrink_iters(60);
    let git = RandomSub::<GitCase>::new(
        "env-matrix-git",
        (100, 1_200),
        |_| {
            (proptest::collection::vec(c02::op_strategy(), 0..8), prop::bool::weighted(0.4), 0u8..4, 0usize..14, proptest::option::weighted(0.5, 0usize..22), prop_oneof![3 => Just(0u8), 1 => Just(1u8), 1 => Just(2u8)])
                .prop_map(|(mut ops, flow, render, template, preset, dirty_override)| {
                    ops.insert(0, Op::Tag { name: 1, annotated: false, at: None });
                    ops.push(Op::Clean); // clock-free: see stdin_case
                    match dirty_override {
                        1 => ops.push(Op::DirtyUntracked),
                        2 => ops.push(Op::DirtyModify),
                        _ => {}
                    }
                    GitCase { ops, flow, render, template, preset, dirty_override }
                })
                .boxed()
        },
        check_git,
    )
    .shrink_iters(30);
    let _ = gens::pick::<u8>;
    Property {
        id: "C14",
        rule: "cases = `zerv version|flow` runs on stdin objects (timestamps within 14 h of a UTC day boundary, schemas with ts() components, calver and other presets, templates using format_timestamp / hash / hash_int / case filters) and on real repositories (-C), each executed in a baseline environment (TZ=UTC, LANG=C, cwd=/) and in 15 variants (5 time zones incl. POSIX forms and unset, 3 locale settings, another cwd, 59 unrelated variables incl. HOME/USER/TERM/COLUMNS/SOURCE_DATE_EPOCH, repetition, unrelated variables whose value / name is not valid UTF-8, git's German / French message catalogue (stdout and status only)) + RUST_LOG=debug (stdout/status only) + 3 concurrent invocations + (git) inside the repository without -C. Oracle (metamorphic): stdout, status and stderr identical to the baseline; cases are clock-free by construction (work tree clean, dirty=false, flow in commit post-mode), so comparison is byte-exact; the wall-clock dev/timestamp path is bracketed in C02/C04/C06. equal-tags-repeat: repositories whose tagged commit carries 2-4 tags of one precedence-equal class (v prefix, build metadata, trailing .0, label spellings), 16 processes must print the same bytes. Non-trivial = every case (each prints a time- or hash-derived component or depends on the repository); distinct = distinct cases.",
        assumptions: vec![
            "only the locales installed in the image exist (C, C.UTF-8); other names exercise the fallback path",
            "one machine, one libc, one Rust version",
        ],
        subs: vec![stdin.boxed(), git.boxed(), equal_tags.boxed()],
        known_repro: vec![],
    }
}
