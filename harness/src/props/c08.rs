//! C08 — the SemVer parser accepts exactly SemVer 2.0.0 and loses nothing (DESIGN.md §6 C08).
use crate::gens;
use crate::oracle::semver as osem;
use crate::proc;
use crate::runner::*;
use proptest::prelude::*;
use std::str::FromStr;
use zerv::cli::{CheckArgs, run_check_command};
use zerv::version::SemVer;

const SUFFIX_ALPHA: [&str; 10] = ["0", "1", "9", "a", "Z", "-", ".", "+", "٣", "é"];
const CORE_ALPHA: [&str; 7] = ["0", "1", "9", ".", "v", "-", "٣"];

fn near_boundary(s: &str) -> bool {
    if osem::parse_v(s).is_some() {
        return true;
    }
    // rejected, but one deletion away from an accepted string
    let idx: Vec<usize> = s.char_indices().map(|(i, _)| i).collect();
    for (k, &i) in idx.iter().enumerate() {
        let j = idx.get(k + 1).copied().unwrap_or(s.len());
        let mut t = String::with_capacity(s.len());
        t.push_str(&s[..i]);
        t.push_str(&s[j..]);
        if osem::parse_v(&t).is_some() {
            return true;
        }
    }
    false
}

pub fn check_one(s: &String, cx: &mut Cx) -> Res {
    let z = match no_panic(|| SemVer::from_str(s)) {
        Ok(r) => r,
        Err(p) => return fail(format!("SemVer::from_str({s:?}) panicked: {p}")),
    };
    let o = osem::parse_v(s);
    cx.label_if(o.is_some(), "grammar-accepts");
    cx.label_if(!s.is_ascii(), "non-ascii");
    if s.len() <= 24 {
        cx.nt_if(near_boundary(s));
    } else {
        cx.nt_if(o.is_some());
    }
    cx.note(|| format!("{s:?}: zerv={} grammar={}", z.as_ref().map(|v| v.to_string()).unwrap_or_else(|_| "reject".into()), o.is_some()));
    let without_v = s.strip_prefix('v').unwrap_or(s);
    match (&z, &o) {
        (Ok(v), Some(_)) => {
            let printed = v.to_string();
            ensure!(printed == without_v, "accepted {s:?} but prints {printed:?} (input not preserved character for character)");
        }
        (Ok(v), None) => return fail(format!("accepted {s:?} (prints {:?}) which is not SemVer 2.0.0", v.to_string())),
        (Err(_), Some(sem)) => {
            // the grammar has no upper bound on numbers; rejecting what u64 cannot hold is a
            // range limit, not a grammar error (DESIGN §6 C08) — anything else is a violation
            if osem::all_numbers_fit_u64(sem) && osem::build_numbers_fit_u64(sem) {
                return fail(format!("rejected valid SemVer {s:?}"));
            }
            cx.label("range-reject");
        }
        (Err(_), None) => {}
    }
    // `zerv check --format semver` (in-process entry point of the sub-command)
    let c = no_panic(|| run_check_command(CheckArgs { version: s.clone(), format: Some("semver".into()) }));
    match c {
        Err(p) => return fail(format!("check panicked on {s:?}: {p}")),
        Ok(r) => {
            ensure!(r.is_ok() == z.is_ok(), "check --format semver verdict {} differs from parser verdict {} on {s:?}", r.is_ok(), z.is_ok());
            if let Ok(text) = r {
                let want = if z.as_ref().unwrap().to_string() == *s {
                    format!("Version: {s}\n✓ Valid SemVer format")
                } else {
                    format!("Version: {s}\n✓ Valid SemVer format (normalized: {without_v})")
                };
                // run_check_command trims trailing whitespace of the whole report
                ensure!(text == want.trim_end(), "check report {text:?} != {want:?}");
            }
        }
    }
    Ok(())
}

fn odometer(alpha: &'static [&'static str], prefix: &'static str, max_len: usize, shard: usize, n: usize, visit: &mut dyn FnMut(&String) -> bool) {
    let mut idx = 0usize;
    for len in 0..=max_len {
        let total = alpha.len().pow(len as u32);
        for k in 0..total {
            if idx % n == shard {
                let mut s = String::from(prefix);
                let mut x = k;
                for _ in 0..len {
                    s.push_str(alpha[x % alpha.len()]);
                    x /= alpha.len();
                }
                if !visit(&s) {
                    return;
                }
            }
            idx += 1;
        }
    }
}

// ----- grammar-directed generator and mutator -----
fn num_ident() -> BoxedStrategy<String> {
    gens::num::digits_any()
}
fn alnum_ident() -> BoxedStrategy<String> {
    prop_oneof![
        4 => "[0-9A-Za-z-]{0,4}[A-Za-z-][0-9A-Za-z-]{0,4}",
        2 => gens::pick(gens::text::LABELS).prop_map(String::from),
        1 => "0[0-9]{0,3}[a-z-]",
        1 => Just("-".to_string()),
        // real-world shapes; all-digit draws would be numeric identifiers, so they get a letter
        2 => gens::text::realistic_ident().prop_map(|s| if s.bytes().all(|b| b.is_ascii_digit()) { format!("{s}x") } else { s }),
    ]
    .boxed()
}
fn build_ident() -> BoxedStrategy<String> {
    prop_oneof![3 => "[0-9A-Za-z-]{1,8}", 1 => "0[0-9]{1,5}", 1 => num_ident(), 2 => gens::text::realistic_ident()].boxed()
}
/// version-like strings as calendar versioning writes them: years, zero-padded months and days,
/// two to four parts - most are NOT SemVer (leading zeros, part count); the oracle decides
pub fn calver_like() -> BoxedStrategy<String> {
    let year = gens::pick(&["1999", "2000", "2024", "2026", "2100", "24", "0024", "3024"]);
    let mm = prop_oneof![(1u32..13).prop_map(|m| format!("{m:02}")), (1u32..13).prop_map(|m| m.to_string()), gens::pick(&["00", "13", "001"]).prop_map(String::from)];
    let dd = prop_oneof![(1u32..32).prop_map(|d| format!("{d:02}")), (1u32..32).prop_map(|d| d.to_string()), gens::pick(&["00", "015"]).prop_map(String::from)];
    (any::<bool>(), year, mm, proptest::option::weighted(0.8, dd), proptest::option::weighted(0.3, 0u32..50), gens::pick(&["", "-rc.1", "-alpha", "+build.5", "-rc.1+build.5", ".post1", "a1"]))
        .prop_map(|(v, y, m, d, extra, tail)| {
            let mut s = format!("{}{y}.{m}", if v { "v" } else { "" });
            if let Some(d) = d {
                s.push_str(&format!(".{d}"));
            }
            if let Some(e) = extra {
                s.push_str(&format!(".{e}"));
            }
            s.push_str(tail);
            s
        })
        .boxed()
}
pub fn valid_semver() -> BoxedStrategy<String> {
    (
        any::<bool>(),
        num_ident(),
        num_ident(),
        num_ident(),
        proptest::collection::vec(prop_oneof![num_ident(), alnum_ident()], 0..6),
        proptest::collection::vec(build_ident(), 0..5),
    )
        .prop_map(|(v, a, b, c, pre, build)| {
            let mut s = String::new();
            if v {
                s.push('v');
            }
            s.push_str(&format!("{a}.{b}.{c}"));
            if !pre.is_empty() {
                s.push('-');
                s.push_str(&pre.join("."));
            }
            if !build.is_empty() {
                s.push('+');
                s.push_str(&build.join("."));
            }
            s
        })
        .boxed()
}
const MUT_SYMS: &[&str] = &["0", "1", "9", "a", "Z", "-", ".", "+", "v", "V", " ", "_", "٣", "é", "５", "\n", "00", "..", "+-", "-+", "!"];
pub fn mutate(base: BoxedStrategy<String>) -> BoxedStrategy<String> {
    (base, 0usize..4, any::<prop::sample::Index>(), gens::pick(MUT_SYMS))
        .prop_map(|(s, op, at, sym)| {
            let idx: Vec<usize> = s.char_indices().map(|(i, _)| i).chain([s.len()]).collect();
            let i = idx[at.index(idx.len())];
            let next = s[i..].chars().next().map(|c| i + c.len_utf8()).unwrap_or(s.len());
            match op {
                0 => format!("{}{}{}", &s[..i], sym, &s[i..]),
                1 => format!("{}{}", &s[..i], &s[next..]),
                2 => format!("{}{}{}", &s[..i], sym, &s[next..]),
                _ => format!("{}{}{}", &s[..next], &s[i..next], &s[next..]),
            }
        })
        .boxed()
}


/// `zerv check --format semver` in-process against the independent recogniser: verdict, and
/// "normalized" exactly when the input is not printed back as it is (a `v` prefix)
fn check_report(s: &String, cx: &mut Cx) -> Res {
    let want = osem::parse_v(s).map(|p| (osem::all_numbers_fit_u64(&p), osem::print(&p)));
    let r = crate::cli::check(&crate::cli::sv(&["--format", "semver", "--", s]));
    cx.note(|| format!("{s:?} -> {}", r.describe().chars().take(100).collect::<String>()));
    match (&r, &want) {
        (crate::cli::Run::Panic(p), _) => fail(format!("zerv check panicked on {s:?}: {p}")),
        (crate::cli::Run::Ok(t), Some((_, nf))) => {
            cx.nt();
            let expect = if nf == s { format!("Version: {s}\n✓ Valid SemVer format") } else { format!("Version: {s}\n✓ Valid SemVer format (normalized: {nf})") };
            ensure!(t.trim_end() == expect, "zerv check reports {:?} for {s:?}; expected {expect:?}", t.trim_end());
            Ok(())
        }
        (crate::cli::Run::Ok(t), None) => fail(format!("zerv check accepts {s:?}, which is not SemVer 2.0.0: {t:?}")),
        (_, Some((true, _))) => fail(format!("zerv check rejects the valid SemVer version {s:?}: {}", r.describe())),
        _ => Ok(()),
    }
}

pub fn property() -> Property {
    let e1 = EnumSub::<String>::new(
        "enum-suffix",
        "\"1.0.0\" + every suffix of length <=6 (quick) / <=7 (thorough) over {0 1 9 a Z - . + ٣ é}",
        |tier, shard, n, visit| odometer(&SUFFIX_ALPHA, "1.0.0", tier.pick(6, 7), shard, n, visit),
        check_one,
    );
    let e2 = EnumSub::<String>::new(
        "enum-core",
        "every string of length <=7 (quick) / <=8 (thorough) over {0 1 9 . v - ٣}",
        |tier, shard, n, visit| odometer(&CORE_ALPHA, "", tier.pick(7, 8), shard, n, visit),
        check_one,
    );
    let r1 = RandomSub::<String>::new(
        "grammar-mutants",
        (60_000, 1_500_000),
        |_| prop_oneof![4 => valid_semver(), 6 => mutate(valid_semver()), 2 => mutate(mutate(valid_semver())), 2 => calver_like()].boxed(),
        check_one,
    )
    .floor(0.3);
    let r2 = RandomSub::<String>::new(
        "unicode-random",
        (30_000, 600_000),
        |_| prop_oneof![2 => gens::text::unicode(24), 2 => gens::text::nasty(), 1 => ("[0-9]{1,3}\\.[0-9]{1,3}\\.[0-9]{1,3}", gens::text::unicode(10)).prop_map(|(a, b)| a + &b)].boxed(),
        check_one,
    );
    let long = RandomSub::<String>::new(
        "long-lookalike",
        (30_000, 600_000),
        |_| {
            (valid_semver(), gens::pick(&[0usize, 40, 65, 70, 100, 129, 200, 260, 520]), any::<u64>(), prop::bool::weighted(0.7))
                .prop_map(|(s, min_len, pick, disguise)| {
                    let joiner = if s.contains('+') { "." } else if pick % 2 == 0 { "+" } else if s.contains('-') { "." } else { "-" };
                    gens::text::lengthen_and_disguise(&s, joiner, min_len, &["ubuntu", "22", "4", "lts", "Kernel", "6", "18", "build", "7", "sha", "abc123", "Release", "x86", "64", "musl", "k8s", "SKU", "Iso", "0a", "1-1"], pick, disguise).0
                })
                .boxed()
        },
        |s, cx| {
            cx.label_if(s.len() > 64, ">64-bytes");
            cx.label_if(!s.is_ascii(), "disguised");
            check_one(s, cx)?;
            cx.nt_if(s.len() > 64);
            Ok(())
        },
    )
    .floor(0.3);
    // L2: the real binary gives the same verdict (exit status) and report
    let report = RandomSub::<String>::new("check-report", (60_000, 1_200_000), |_| prop_oneof![3 => valid_semver(), 2 => mutate(valid_semver()), 1 => calver_like()].boxed(), check_report).floor(0.1);
    let l2 = RandomSub::<String>::new(
        "cli-check",
        (400, 6_000),
        |_| {
            prop_oneof![2 => valid_semver(), 3 => mutate(valid_semver())]
                .prop_filter("argv-safe positional", |s| proc::argv_safe(s) && !s.starts_with('-') && !s.is_empty())
                .boxed()
        },
        |s, cx| {
            let o = proc::zerv(&["check", "--format", "semver", s], None);
            if o.timed_out {
                infra(format!("zerv check timed out on {s:?}"));
                return Ok(());
            }
            let z = SemVer::from_str(s);
            cx.nt_if(osem::parse_v(s).is_some() || near_boundary(s));
            cx.note(|| format!("{s:?}: exit={:?}", o.code));
            match z {
                Ok(v) => {
                    ensure!(o.code == Some(0), "binary rejects {s:?} (exit {:?}) although the parser accepts it", o.code);
                    let without_v = s.strip_prefix('v').unwrap_or(s);
                    let want = if v.to_string() == *s { format!("Version: {s}\n✓ Valid SemVer format\n") } else { format!("Version: {s}\n✓ Valid SemVer format (normalized: {without_v})\n") };
                    ensure!(o.out_str() == want, "binary stdout {:?} != {want:?}", o.out_str());
                }
                Err(_) => {
                    ensure!(o.code == Some(1), "binary exit {:?} (signal {:?}) on rejected {s:?}", o.code, o.signal);
                    ensure!(o.stdout.is_empty(), "binary printed {:?} on stdout for rejected {s:?}", o.out_str());
                }
            }
            Ok(())
        },
    )
    .shrink_iters(200);
    Property {
        id: "C08",
        rule: "cases = candidate version strings: exhaustive short suffixes/cores over grammar-relevant alphabets incl. non-ASCII digit and letter, grammar-generated valid strings with boundary numbers (up to 10^25) and 1-2 symbol mutations of them, arbitrary Unicode. Non-trivial = the SemVer 2.0.0 grammar accepts the string or accepts it after deleting one character (i.e. within one edit of the accept/reject boundary); distinct = distinct strings.",
        assumptions: vec![
            "a grammar-valid string whose number exceeds u64 may be rejected (range limit) but must never be accepted and printed differently",
            "cli-check passes strings as one argv element; strings starting with '-' or containing NUL are not sent through the binary",
        ],
        subs: vec![e1.boxed(), e2.boxed(), r1.boxed(), r2.boxed(), long.boxed(), report.boxed(), l2.boxed()],
        known_repro: vec![],
    }
}
