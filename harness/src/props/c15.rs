//! C15 — template variables agree with the rendered version; functions keep contracts (DESIGN.md §6 C15).
//! Every probe is wrapped in ASCII sentinels because the template layer trims the whole output
//! and maps a whole output equal to none|null|nil to the empty string.
use crate::cli;
use crate::gens;
use crate::gens::zervgen as zg;
use crate::model::*;
use crate::oracle::{calendar, render as orender, sanitize as osan};
use crate::runner::*;
use proptest::prelude::*;
use serde::{Deserialize, Serialize};

fn render_tpl(ron: &str, tpl: &str) -> cli::Run {
    cli::version(&["--source=stdin".to_string(), format!("--output-template=<<{tpl}>>")], Some(ron))
}
fn unwrap_sentinels(r: cli::Run, tpl: &str) -> Result<String, Bad> {
    match r {
        cli::Run::Ok(s) => s.strip_prefix("<<").and_then(|x| x.strip_suffix(">>")).map(String::from).ok_or_else(|| Bad::Fail(format!("sentinels lost rendering {tpl:?}: {s:?}"))),
        cli::Run::Panic(p) => Err(Bad::Fail(format!("template {tpl:?} panicked: {p}"))),
        other => Err(Bad::Fail(format!("template {tpl:?} failed: {}", other.describe()))),
    }
}
fn probe(ron: &str, tpl: &str) -> Result<String, Bad> {
    unwrap_sentinels(render_tpl(ron, tpl), tpl)
}

fn check_context(z: &MZerv, cx: &mut Cx) -> Res {
    let zerv = z.to_zerv().map_err(|e| Bad::Fail(format!("harness bug: {e}")))?;
    let ron = zerv.to_string();
    let fmt = |f: &str| match cli::version(&cli::sv(&["--source", "stdin", "--output-format", f]), Some(&ron)) {
        cli::Run::Ok(s) => Ok(s),
        other => Err(Bad::Fail(format!("--output-format {f} failed: {}", other.describe()))),
    };
    let semver = fmt("semver")?;
    let pep440 = fmt("pep440")?;
    let has_pre = semver.contains('-');
    let has_build = semver.contains('+');
    cx.nt_if(has_pre || has_build);
    cx.note(|| format!("{semver} | {pep440}"));
    ensure!(probe(&ron, "{{ semver }}")? == semver, "{{{{ semver }}}} = {:?} but --output-format semver prints {semver:?}", probe(&ron, "{{ semver }}")?);
    ensure!(probe(&ron, "{{ pep440 }}")? == pep440, "{{{{ pep440 }}}} = {:?} but --output-format pep440 prints {pep440:?}", probe(&ron, "{{ pep440 }}")?);
    // recomposition of the parts ("\u{1}" cannot occur in a sanitised version string)
    let parts = probe(&ron, "{{ semver_obj.base_part }}\u{1}{% if semver_obj.pre_release_part %}-{{ semver_obj.pre_release_part }}{% endif %}\u{1}{% if semver_obj.build_part %}+{{ semver_obj.build_part }}{% endif %}\u{1}{{ semver_obj.docker }}")?;
    let p: Vec<&str> = parts.split('\u{1}').collect();
    ensure!(p.len() == 4, "unexpected part list {parts:?}");
    ensure!(format!("{}{}{}", p[0], p[1], p[2]) == semver, "semver_obj parts {:?} do not recompose to {semver:?}", &p[..3]);
    ensure!(p[3] == semver.replace('+', "-"), "semver_obj.docker = {:?}, expected {:?}", p[3], semver.replace('+', "-"));
    let parts = probe(&ron, "{{ pep440_obj.base_part }}\u{1}{% if pep440_obj.pre_release_part %}{{ pep440_obj.pre_release_part }}{% endif %}\u{1}{% if pep440_obj.build_part %}+{{ pep440_obj.build_part }}{% endif %}")?;
    let p: Vec<&str> = parts.split('\u{1}').collect();
    ensure!(p.len() == 3 && format!("{}{}{}", p[0], p[1], p[2]) == pep440, "pep440_obj parts {p:?} do not recompose to {pep440:?}");
    // absent parts are null (falsy), present parts are the text between the separators
    let s_pre = probe(&ron, "{% if semver_obj.pre_release_part %}Y{% else %}N{% endif %}{% if semver_obj.build_part %}Y{% else %}N{% endif %}")?;
    ensure!(s_pre == format!("{}{}", if has_pre { "Y" } else { "N" }, if has_build { "Y" } else { "N" }), "presence of semver_obj parts {s_pre:?} does not match {semver:?}");
    // scalars
    let v = &z.vars;
    let n = |o: &Option<u64>| o.map(|x| x.to_string()).unwrap_or_default();
    let scalars: Vec<(&str, String)> = vec![
        ("major", n(&v.major)), ("minor", n(&v.minor)), ("patch", n(&v.patch)), ("epoch", n(&v.epoch)), ("post", n(&v.post)), ("dev", n(&v.dev)),
        ("distance", n(&v.distance)), ("dirty", v.dirty.map(|b| b.to_string()).unwrap_or_default()),
        ("bumped_timestamp", n(&v.bumped_timestamp)), ("last_timestamp", n(&v.last_timestamp)),
        ("pre_release.label", v.pre_release.map(|p| LABELS[p.0 as usize % 3].to_string()).unwrap_or_default()),
        ("pre_release.number", v.pre_release.and_then(|p| p.1).map(|x| x.to_string()).unwrap_or_default()),
        ("pre_release.label_code", v.pre_release.map(|p| ["a", "b", "rc"][p.0 as usize % 3].to_string()).unwrap_or_default()),
        ("pre_release.label_pep440", v.pre_release.map(|p| ["a", "b", "rc"][p.0 as usize % 3].to_string()).unwrap_or_default()),
    ];
    for (name, want) in &scalars {
        let t = if name.starts_with("pre_release.") { format!("{{% if pre_release %}}{{{{ {name} }}}}{{% endif %}}") } else { format!("{{{{ {name} }}}}") };
        let got = probe(&ron, &t)?;
        ensure!(got == *want, "{{{{ {name} }}}} = {got:?} but the Zerv variable is {want:?}");
    }
    let texts: Vec<(&str, String)> = vec![
        ("bumped_branch", v.bumped_branch.clone().unwrap_or_default()),
        ("bumped_commit_hash", v.bumped_commit_hash.clone().unwrap_or_default()),
        ("bumped_commit_hash_short", v.bumped_commit_hash.as_deref().map(orender::short_hash).unwrap_or_default()),
        ("last_commit_hash", v.last_commit_hash.clone().unwrap_or_default()),
        ("last_commit_hash_short", v.last_commit_hash.as_deref().map(orender::short_hash).unwrap_or_default()),
    ];
    for (name, want) in &texts {
        let got = probe(&ron, &format!("{{{{ {name} }}}}"))?;
        ensure!(got == *want, "{{{{ {name} }}}} = {got:?} but the Zerv variable is {want:?}");
    }
    Ok(())
}


/// the same agreement at the end of a whole `zerv version` run: overrides, bumps and schema-section
/// operations happen first, then the template context is built
fn check_after_flags(c: &crate::props::c01::Case, cx: &mut Cx) -> Res {
    let mut base = crate::props::c01::argv(c);
    base.retain(|x| !x.starts_with("--output-format") && !x.starts_with("--output-prefix"));
    let stdin = c.stdin.as_ref().and_then(|z| z.to_zerv().ok()).map(|z| z.to_string());
    let run = |extra: &[String]| {
        let mut a = base.clone();
        a.extend(extra.iter().cloned());
        cli::version(&a, stdin.as_deref())
    };
    let obj = match run(&["--output-format=zerv".to_string()]) {
        cli::Run::Ok(o) => o,
        cli::Run::Panic(p) => return fail(format!("version panicked on {base:?}: {p}")),
        _ => return Ok(()), // rejected flag combination
    };
    let z = <zerv::version::Zerv as std::str::FromStr>::from_str(&obj).map_err(|e| Bad::Fail(format!("emitted object does not parse: {e}")))?;
    if z.vars.dirty == Some(true) {
        return Ok(()); // wall-clock timestamp: separate runs are not comparable
    }
    let (semver, pep440) = match (run(&["--output-format=semver".to_string()]), run(&["--output-format=pep440".to_string()])) {
        (cli::Run::Ok(a), cli::Run::Ok(b)) => (a, b),
        (a, b) => return fail(format!("zerv output succeeds but semver/pep440 output fails for {base:?}: {} / {}", a.describe(), b.describe())),
    };
    let schema_ops = c.flags.iter().any(|f| matches!(f.name.as_str(), "core" | "extra-core" | "build" | "bump-core" | "bump-extra-core" | "bump-build"));
    cx.nt_if(!c.flags.is_empty());
    cx.label_if(schema_ops, "schema-section-override-or-bump");
    cx.label_if(c.stdin.is_some(), "stdin-source");
    let tpl = "{{ semver }}\u{1}{{ pep440 }}\u{1}{{ semver_obj.base_part }}{% if semver_obj.pre_release_part %}-{{ semver_obj.pre_release_part }}{% endif %}{% if semver_obj.build_part %}+{{ semver_obj.build_part }}{% endif %}\u{1}{{ pep440_obj.base_part }}{% if pep440_obj.pre_release_part %}{{ pep440_obj.pre_release_part }}{% endif %}{% if pep440_obj.build_part %}+{{ pep440_obj.build_part }}{% endif %}\u{1}{{ semver_obj.docker }}\u{1}{{ major }}.{{ minor }}.{{ patch }}.{{ epoch }}.{{ post }}.{{ dev }}.{{ distance }}";
    let got = unwrap_sentinels(run(&[format!("--output-template=<<{tpl}>>")]), tpl)?;
    let p: Vec<&str> = got.split('\u{1}').collect();
    ensure!(p.len() == 6, "unexpected probe result {got:?}");
    cx.note(|| format!("{base:?} -> {semver} | {pep440}"));
    ensure!(p[0] == semver, "{{{{ semver }}}} = {:?} but --output-format semver prints {semver:?} for {base:?}", p[0]);
    ensure!(p[1] == pep440, "{{{{ pep440 }}}} = {:?} but --output-format pep440 prints {pep440:?} for {base:?}", p[1]);
    ensure!(p[2] == semver, "semver_obj parts recompose to {:?}, --output-format semver prints {semver:?} for {base:?}", p[2]);
    ensure!(p[3] == pep440, "pep440_obj parts recompose to {:?}, --output-format pep440 prints {pep440:?} for {base:?}", p[3]);
    ensure!(p[4] == semver.replace('+', "-"), "semver_obj.docker = {:?}, expected {:?}", p[4], semver.replace('+', "-"));
    let n = |o: &Option<u64>| o.map(|x| x.to_string()).unwrap_or_default();
    let v = &z.vars;
    let want = format!("{}.{}.{}.{}.{}.{}.{}", n(&v.major), n(&v.minor), n(&v.patch), n(&v.epoch), n(&v.post), n(&v.dev), n(&v.distance));
    ensure!(p[5] == want, "scalar variables {:?} differ from the emitted object's {want:?} for {base:?}", p[5]);
    Ok(())
}


/// templates as VALUES of override / bump flags: `--major '{{ T }}'` must act exactly like
/// `--major n`, n being what T evaluates to on the input object (the documented context)
#[derive(Debug, Clone, Hash, Serialize, Deserialize)]
pub struct TplFlagCase {
    pub z: MZerv,
    pub flag: usize,
    pub tpl: usize,
}
const TPL_FLAGS: [&str; 15] = [
    "major", "minor", "patch", "epoch", "post", "dev", "pre-release-num", "bump-major", "bump-minor", "bump-patch", "bump-post", "bump-dev", "bump-pre-release-num", "bump-epoch",
    "pre-release-label",
];
const INT_TEMPLATES: [&str; 14] = [
    "{{ major }}", "{{ minor + 1 }}", "{{ patch * 2 }}", "{{ distance }}", "{{ distance + 41 }}", "{{ 7 }}", "{{ post }}", "{{ dev }}", "{{ epoch }}",
    "{{ hash_int(value=bumped_branch, length=3) }}", "{{ hash_int(value=bumped_commit_hash, length=5, allow_leading_zero=false) }}", "{% if dirty %}1{% else %}2{% endif %}",
    "{{ bumped_timestamp % 1000 }}", "{{ custom.meta.n }}",
];
const LABEL_TEMPLATES: [&str; 4] = ["{% if major %}rc{% else %}beta{% endif %}", "{% if distance %}alpha{% else %}rc{% endif %}", "{{ pre_release.label }}", "beta"];
fn check_tpl_flag(c: &TplFlagCase, cx: &mut Cx) -> Res {
    let zerv = c.z.to_zerv().map_err(|e| Bad::Fail(format!("harness bug: {e}")))?;
    let ron = zerv.to_string();
    let flag = TPL_FLAGS[c.flag % TPL_FLAGS.len()];
    let label = flag == "pre-release-label";
    let tpl = if label { LABEL_TEMPLATES[c.tpl % LABEL_TEMPLATES.len()] } else { INT_TEMPLATES[c.tpl % INT_TEMPLATES.len()] };
    // what the template evaluates to on the input object
    let value = match render_tpl(&ron, tpl) {
        cli::Run::Ok(s) => s.strip_prefix("<<").and_then(|x| x.strip_suffix(">>")).map(String::from),
        cli::Run::Panic(p) => return fail(format!("template {tpl:?} panicked: {p}")),
        _ => None,
    };
    let run = |v: &str| cli::version(&["--source=stdin".to_string(), format!("--{flag}={v}"), "--output-format=zerv".to_string()], Some(&ron));
    let with_tpl = run(tpl);
    if let cli::Run::Panic(p) = &with_tpl {
        return fail(format!("--{flag}={tpl:?} panicked: {p}"));
    }
    cx.label(flag);
    let usable = value.as_ref().is_some_and(|v| if label { matches!(v.as_str(), "alpha" | "beta" | "rc") } else { !v.is_empty() && v.len() <= 9 && v.bytes().all(|b| b.is_ascii_digit()) });
    cx.nt_if(usable);
    if !usable {
        cx.label("template-without-usable-value");
        return Ok(());
    }
    let v = value.unwrap();
    let with_val = run(&v);
    cx.note(|| format!("--{flag}={tpl:?} (= {v}) -> {}", with_tpl.describe().chars().take(80).collect::<String>()));
    match (&with_tpl, &with_val) {
        (cli::Run::Ok(a), cli::Run::Ok(b)) => ensure!(a == b, "--{flag}={tpl:?} differs from --{flag}={v} although the template evaluates to {v:?} on the input object:\n--- with the template\n{a}\n--- with the value\n{b}"),
        (a, b) => ensure!(a.is_ok() == b.is_ok(), "--{flag}={tpl:?} gives {} but --{flag}={v} gives {}", a.describe(), b.describe()),
    }
    Ok(())
}


/// literal text around a placeholder is copied, and does not change what the placeholder
/// renders (Tera switches HTML auto-escaping on by the *name* of a template, for one thing)
#[derive(Debug, Clone, Hash, Serialize, Deserialize)]
pub struct AffixCase {
    pub z: MZerv,
    pub tpl: usize,
    pub prefix: usize,
    pub suffix: usize,
}
const VALUE_TEMPLATES: [&str; 10] = [
    "{{ bumped_branch }}", "{{ semver }}", "{{ pep440 }}", "{{ bumped_commit_hash }}", "{{ prefix(value=bumped_branch, length=8) }}", "{{ prefix_if(value=bumped_branch, prefix=\"/\") }}",
    "{{ sanitize(value=bumped_branch, preset=\"dotted\") }}", "{{ custom | json_encode() }}", "{{ semver_obj.docker }}", "{{ hash(value=bumped_branch, length=9) }}",
];
const AFFIXES: [&str; 16] = ["", ".html", ".htm", ".xml", ".txt", ".json", ".md", ".tera", ".j2", "/", "index.html", "report-", "v", "&", "<b>", "'"];
fn check_affix(c: &AffixCase, cx: &mut Cx) -> Res {
    let zerv = c.z.to_zerv().map_err(|e| Bad::Fail(format!("harness bug: {e}")))?;
    let ron = zerv.to_string();
    let t = VALUE_TEMPLATES[c.tpl % VALUE_TEMPLATES.len()];
    let (a, b) = (AFFIXES[c.prefix % AFFIXES.len()], AFFIXES[c.suffix % AFFIXES.len()]);
    let plain = probe(&ron, t)?;
    let tpl = format!("{a}<<{t}>>{b}");
    let framed = match cli::version(&["--source=stdin".to_string(), format!("--output-template={tpl}")], Some(&ron)) {
        cli::Run::Ok(s) => s,
        cli::Run::Panic(p) => return fail(format!("template {tpl:?} panicked: {p}")),
        other => return fail(format!("template {tpl:?} failed although {t:?} renders: {}", other.describe())),
    };
    cx.nt_if(!a.is_empty() || !b.is_empty());
    cx.label_if(plain.chars().any(|ch| matches!(ch, '/' | '&' | '<' | '>' | '"' | '\'')), "value-with-html-special-characters");
    cx.note(|| format!("{tpl:?} -> {framed:?}"));
    let want = format!("{a}<<{plain}>>{b}");
    ensure!(framed == want, "template {tpl:?} renders {framed:?}; the placeholder alone renders {plain:?}, so the whole must be {want:?}");
    Ok(())
}

#[derive(Debug, Clone, Hash, Serialize, Deserialize)]
pub enum Fun {
    Hash { length: Option<u64> },
    HashInt { length: Option<u64>, allow_zero: Option<bool> },
    Prefix { length: Option<u64> },
    PrefixIf { prefix: String },
    Sanitize { preset: Option<u8>, sep: Option<char>, lowercase: bool, keep_zeros: bool, max_length: Option<usize> },
    FormatTs { ts: u64, format: Option<String>, valid: bool },
}
#[derive(Debug, Clone, Hash, Serialize, Deserialize)]
pub struct FunCase {
    pub value: String, // travels as bumped_branch
    pub fun: Fun,
}

const SPECS: [&str; 39] = [
    "%Y", "%y", "%m", "%d", "%H", "%M", "%S", "%j", "%W", "%U", "%u", "%w", "%a", "%b", "%s", "%F", "%T", "%%", "%-d", "%-m", "%-H", "%-j",
    // zone-bearing specifiers (every zerv date is UTC), names, 12-hour clock, space padding, composites
    "%z", "%:z", "%Z", "%+", "%e", "%k", "%I", "%l", "%p", "%A", "%B", "%h", "%C", "%R", "%D", "%z", "%Z",
];
const BAD_SPECS: [&str; 6] = ["%Q", "%", "%-", "%!", "%Y%", "%E"];

fn fmt_strategy() -> BoxedStrategy<(Option<String>, bool)> {
    prop_oneof![
        1 => Just((None, true)),
        1 => gens::pick(&["compact_date", "compact_datetime"]).prop_map(|s| (Some(s.to_string()), true)),
        5 => proptest::collection::vec((gens::pick(&SPECS), gens::pick(&["", "-", ":", "T", " ", "/", "x", "é"])), 1..5).prop_map(|v| (Some(v.into_iter().map(|(a, b)| format!("{a}{b}")).collect()), true)),
        1 => (gens::pick(&BAD_SPECS), gens::pick(&["", "%Y-", "x"])).prop_map(|(b, p)| (Some(format!("{p}{b}")), false)),
    ]
    .boxed()
}

/// lengths far beyond anything a version string can hold (> 65535) may be refused with an error
/// (Tera itself refuses integer literals above i64); what they may not do is panic
fn extreme_refused(ron: &str, t: &str, length: Option<u64>, cx: &mut Cx) -> Result<bool, Bad> {
    if !length.is_some_and(|l| l > 65535) {
        return Ok(false);
    }
    match render_tpl(ron, t) {
        cli::Run::Panic(p) => fail(format!("template {t:?} panicked: {p}")),
        cli::Run::Ok(_) => Ok(false),
        _ => {
            cx.label("extreme-length-refused");
            Ok(true)
        }
    }
}
fn check_fun(c: &FunCase, cx: &mut Cx) -> Res {
    let z = MZerv {
        schema: MSchema { core: vec![MComp::Var(MVar::Major)], ..Default::default() },
        vars: MVars { major: Some(1), bumped_branch: Some(c.value.clone()), ..Default::default() },
    };
    let ron = z.to_zerv().map_err(|e| Bad::Fail(format!("harness bug: {e}")))?.to_string();
    cx.nt();
    let v = &c.value;
    let chars = |s: &str| s.chars().count() as u64;
    match &c.fun {
        Fun::Hash { length } => {
            cx.label("hash");
            let args = length.map(|l| format!(", length={l}")).unwrap_or_default();
            let t = format!("{{{{ hash(value=bumped_branch{args}) }}}}");
            if extreme_refused(&ron, &t, *length, cx)? {
                return Ok(());
            }
            let out = probe(&ron, &t)?;
            let l = length.unwrap_or(7);
            cx.note(|| format!("hash({v:?}, {length:?}) = {out}"));
            ensure!(chars(&out) <= l, "hash(length={l}) returned {} characters: {out:?}", chars(&out));
            ensure!(out.bytes().all(|b| b.is_ascii_digit() || (b'a'..=b'f').contains(&b)), "hash is not lower-case hex: {out:?}");
            ensure!(l == 0 || !out.is_empty(), "hash(length={l}) is empty");
            ensure!(probe(&ron, &t)? == out, "hash is not deterministic");
        }
        Fun::HashInt { length, allow_zero } => {
            cx.label("hash_int");
            let mut args = String::new();
            if let Some(l) = length {
                args.push_str(&format!(", length={l}"));
            }
            if let Some(a) = allow_zero {
                args.push_str(&format!(", allow_leading_zero={a}"));
            }
            let t = format!("{{{{ hash_int(value=bumped_branch{args}) }}}}");
            if extreme_refused(&ron, &t, *length, cx)? {
                return Ok(());
            }
            let out = probe(&ron, &t)?;
            let l = length.unwrap_or(7);
            cx.note(|| format!("hash_int({v:?}, {length:?}, {allow_zero:?}) = {out}"));
            ensure!(chars(&out) <= l, "hash_int(length={l}) returned {} characters: {out:?}", chars(&out));
            ensure!(out.bytes().all(|b| b.is_ascii_digit()), "hash_int is not decimal: {out:?}");
            if !allow_zero.unwrap_or(false) {
                ensure!(out.len() <= 1 || !out.starts_with('0'), "hash_int without allow_leading_zero starts with 0: {out:?}");
            }
            ensure!(probe(&ron, &t)? == out, "hash_int is not deterministic");
        }
        Fun::Prefix { length } => {
            cx.label("prefix");
            let args = length.map(|l| format!(", length={l}")).unwrap_or_default();
            if extreme_refused(&ron, &format!("{{{{ prefix(value=bumped_branch{args}) }}}}"), *length, cx)? {
                return Ok(());
            }
            let out = probe(&ron, &format!("{{{{ prefix(value=bumped_branch{args}) }}}}"))?;
            let l = length.unwrap_or(10) as usize;
            let want: String = v.chars().take(l).collect();
            cx.note(|| format!("prefix({v:?}, {length:?}) = {out:?}"));
            ensure!(out == want, "prefix(value={v:?}, length={l}) = {out:?}, expected the first {l} characters {want:?}");
        }
        Fun::PrefixIf { prefix } => {
            cx.label("prefix_if");
            let out = probe(&ron, &format!("{{{{ prefix_if(value=bumped_branch, prefix=\"{prefix}\") }}}}"))?;
            let want = if v.is_empty() { String::new() } else { format!("{prefix}{v}") };
            ensure!(out == want, "prefix_if(value={v:?}, prefix={prefix:?}) = {out:?}, expected {want:?}");
        }
        Fun::Sanitize { preset, sep, lowercase, keep_zeros, max_length } => {
            cx.label("sanitize");
            let (args, want): (String, Option<String>) = match preset {
                Some(p) => {
                    let name = ["semver_str", "semver", "dotted", "pep440_local_str", "pep440", "lower_dotted", "uint"][*p as usize % 7];
                    let want = match *p % 7 {
                        0..=2 => osan::model(v, ".", false, false),
                        3..=5 => osan::model(v, ".", true, false),
                        _ => osan::uint_model(v.trim()),
                    };
                    (format!(", preset=\"{name}\""), Some(want))
                }
                None => {
                    let mut a = format!(", lowercase={lowercase}, keep_zeros={keep_zeros}");
                    if let Some(s) = sep {
                        a.push_str(&format!(", separator=\"{s}\""));
                    }
                    if let Some(m) = max_length {
                        a.push_str(&format!(", max_length={m}"));
                    }
                    (a, match (sep, max_length) { (Some(s), None) => Some(osan::model(v, &s.to_string(), *lowercase, *keep_zeros)), _ => None })
                }
            };
            let out = probe(&ron, &format!("{{{{ sanitize(value=bumped_branch{args}) }}}}"))?;
            cx.note(|| format!("sanitize({v:?}{args}) = {out:?}"));
            if let (None, None, true) = (preset, sep, v.is_ascii() && !v.is_empty() && v.trim() == v.as_str()) {
                // no separator: nothing is replaced, the whole value is one segment (lower-cased if
                // asked, zeros stripped when it is all digits, cut to max_length characters)
                let strip = |t: &str| -> String {
                    if !*keep_zeros && !t.is_empty() && t.bytes().all(|b| b.is_ascii_digit()) {
                        let z = t.trim_start_matches('0');
                        if z.is_empty() { "0".into() } else { z.into() }
                    } else {
                        t.to_string()
                    }
                };
                let mut w = strip(&if *lowercase { v.to_ascii_lowercase() } else { v.clone() });
                if let Some(m) = max_length
                    && w.len() > *m
                {
                    w.truncate(*m);
                    w = strip(&w);
                }
                cx.label("sanitize-without-separator");
                ensure!(out == w, "sanitize(value={v:?}{args}) = {out:?}; without a separator the value is one segment and the contract gives {w:?}");
            }
            if let Some(w) = want {
                ensure!(out == w, "sanitize(value={v:?}{args}) = {out:?}, contract says {w:?}");
            } else if let (Some(s), Some(m)) = (sep, max_length) {
                ensure!(out.chars().count() <= *m && osan::well_formed(&out, *s, *lowercase, *keep_zeros).is_ok() && osan::bounded_ok(&out, v, *s, *lowercase, *keep_zeros, *m), "sanitize(value={v:?}{args}) = {out:?} violates the bounded contract");
            }
        }
        Fun::FormatTs { ts, format, valid } => {
            cx.label("format_timestamp");
            let args = format.as_ref().map(|f| format!(", format=\"{f}\"")).unwrap_or_default();
            let t = format!("{{{{ format_timestamp(value={ts}{args}) }}}}");
            let r = render_tpl(&ron, &t);
            if !*valid {
                cx.label("bad-format");
                return match r {
                    cli::Run::Panic(p) => fail(format!("format_timestamp with a bad format {format:?} panicked: {p}")),
                    _ => Ok(()),
                };
            }
            let out = unwrap_sentinels(r, &t)?;
            let civ = calendar::civil(*ts);
            let f = match format.as_deref() {
                None => "%Y-%m-%d".to_string(),
                Some("compact_date") => "%Y%m%d".to_string(),
                Some("compact_datetime") => "%Y%m%d%H%M%S".to_string(),
                Some(f) => f.to_string(),
            };
            let want = calendar::strftime(&f, &civ, *ts).ok_or_else(|| Bad::Fail(format!("harness: no model for format {f:?}")))?;
            cx.note(|| format!("format_timestamp({ts}, {format:?}) = {out:?}"));
            // the whole template output is trimmed: compare modulo surrounding whitespace of the probe
            ensure!(out == want, "format_timestamp(value={ts}, format={format:?}) = {out:?}, UTC calendar formatting gives {want:?}");
        }
    }
    Ok(())
}

pub fn property() -> Property {
    let ctx = RandomSub::<MZerv>::new(
        "context-vs-renderer",
        (12_000, 250_000),
        |_| {
            zg::mzerv(false)
                .prop_map(|mut z| {
                    // clock-free: a dirty object takes the wall clock in every run
                    if z.vars.dirty == Some(true) {
                        z.vars.dirty = Some(false);
                    }
                    z
                })
                .boxed()
        },
        check_context,
    )
    .floor(0.3);
    let funs = RandomSub::<FunCase>::new(
        "function-contracts",
        (40_000, 800_000),
        |_| {
            let len = || proptest::option::weighted(0.8, prop_oneof![8 => 0u64..20, 2 => 20u64..70, 1 => Just(1000u64), 1 => crate::gens::pick(&[255u64, 256, 65535, 65536, 4294967295, 4294967296, 99999999999, u64::MAX])]);
            let fun = prop_oneof![
                2 => len().prop_map(|length| Fun::Hash { length }),
                2 => (len(), proptest::option::of(any::<bool>())).prop_map(|(length, allow_zero)| Fun::HashInt { length, allow_zero }),
                2 => len().prop_map(|length| Fun::Prefix { length }),
                1 => gens::pick(&["+", "-", "v", "", "é", " ", "pre-", "{{"]).prop_map(|p| Fun::PrefixIf { prefix: p.to_string() }),
                2 => (proptest::option::weighted(0.4, 0u8..7), proptest::option::weighted(0.8, gens::pick(&['.', '-', '_', '+', '~'])), any::<bool>(), any::<bool>(), proptest::option::weighted(0.5, 0usize..20))
                    .prop_map(|(preset, sep, lowercase, keep_zeros, max_length)| Fun::Sanitize { preset, sep, lowercase, keep_zeros, max_length }),
                3 => (zg::timestamp(), fmt_strategy()).prop_map(|(ts, (format, valid))| Fun::FormatTs { ts, format, valid }),
            ];
            (prop_oneof![3 => gens::text::nasty(), 2 => gens::text::unicode(30), 1 => Just(String::new()), 1 => "0{1,5}[0-9]{0,6}", 1 => gens::text::segmented()], fun).prop_map(|(value, fun)| FunCase { value, fun }).boxed()
        },
        check_fun,
    )
    .floor(0.5);
    let after = RandomSub::<crate::props::c01::Case>::new("context-after-flags", (16_000, 300_000), |_| crate::props::c01::case_strategy(), check_after_flags).floor(0.2);
    let tplflags = RandomSub::<TplFlagCase>::new(
        "template-valued-flags",
        (12_000, 250_000),
        |_| {
            (zg::mzerv(false), 0usize..15, 0usize..14)
                .prop_map(|(mut z, flag, tpl)| {
                    if z.vars.dirty == Some(true) {
                        z.vars.dirty = Some(false);
                    }
                    TplFlagCase { z, flag, tpl }
                })
                .boxed()
        },
        check_tpl_flag,
    )
    .floor(0.2);
    let affix = RandomSub::<AffixCase>::new(
        "literal-context",
        (12_000, 250_000),
        |_| {
            (zg::mzerv(false), 0usize..10, 0usize..16, 0usize..16)
                .prop_map(|(mut z, tpl, prefix, suffix)| {
                    if z.vars.dirty == Some(true) {
                        z.vars.dirty = Some(false);
                    }
                    AffixCase { z, tpl, prefix, suffix }
                })
                .boxed()
        },
        check_affix,
    )
    .floor(0.5);
    Property {
        id: "C15",
        rule: "cases = (a) Zerv objects (arbitrary valid schemas x vars, clock-free) probed with templates for semver / pep440 / the *_obj parts / docker / every scalar variable, each probe between ASCII sentinels; (a') whole `zerv version` runs (source none / stdin, presets and custom schemas, overrides, bumps, schema-section overrides and bumps): semver / pep440 / recomposed parts / docker / scalars printed by a template against --output-format semver / pep440 / zerv of the same command line; (a'') templates as values of override / bump flags (--major '{{ minor + 1 }}', --bump-minor '{{ hash_int(...) }}', --pre-release-label '{% if ... %}'): the run must equal the run with the literal value the template evaluates to on the input object; (a''') literal text before and after a placeholder (file-name endings such as .html/.xml, HTML-special characters) is copied and leaves the placeholder's value unchanged; (b) function calls hash, hash_int, prefix, prefix_if, sanitize (presets and knobs), format_timestamp (37 strftime specifiers incl. the zone-bearing ones in random combinations, the two compact names, default, and invalid specifiers) with the value travelling as a variable (arbitrary Unicode text). Oracle: equality with --output-format output for the same stdin object (differential), recomposition identities, the input variables, reference models (oracle::sanitize, oracle::calendar) and the stated length/digit contracts; invalid format strings must give an error, not a panic. Non-trivial = object whose SemVer rendering has a pre-release or build part (a); every function case (b); distinct = distinct cases.",
        assumptions: vec![
            "objects are clock-free (dirty is not true), so separate runs are comparable",
            "unset variables render as the empty string (Tera prints null as empty)",
            "last_branch is not part of the documented template context",
        ],
        subs: vec![ctx.boxed(), after.boxed(), tplflags.boxed(), affix.boxed(), funs.boxed()],
        known_repro: vec![],
    }
}
