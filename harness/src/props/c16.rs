//! C16 — the sanitiser contract (DESIGN.md §6 C16).
use crate::gens;
use crate::oracle::sanitize as model;
use crate::runner::*;
use proptest::prelude::*;
use serde::{Deserialize, Serialize};
use zerv::cli::utils::template::Template;
use zerv::utils::sanitize::Sanitizer;

const ALPHA: [char; 9] = ['a', 'Z', '0', '1', '.', '-', '_', '/', 'é'];
const SEPS: [Option<char>; 4] = [Some('.'), Some('-'), Some('_'), None];
const MAXES: [Option<usize>; 7] = [None, Some(0), Some(1), Some(2), Some(3), Some(5), Some(8)];

#[derive(Debug, Clone, Hash, Serialize, Deserialize)]
pub struct StrCase {
    pub input: String,
    pub sep: Option<char>,
    pub lowercase: bool,
    pub keep_zeros: bool,
    pub max_length: Option<usize>,
}

fn is_nontrivial(input: &str) -> bool {
    let has_sepclass = input.chars().any(|c| !c.is_ascii_alphanumeric());
    let has_lz = model::runs(input).iter().any(|r| r.len() > 1 && r.starts_with('0') && r.bytes().all(|b| b.is_ascii_digit()));
    has_sepclass || has_lz
}

/// the contract for one (input, configuration); `san` abstracts the call path
fn check_str(c: &StrCase, san: &dyn Fn(&str) -> Result<String, String>, cx: &mut Cx) -> Res {
    let out = match san(&c.input) {
        Ok(o) => o,
        Err(p) => return fail(format!("sanitiser failed on {:?}: {p}", c.input)),
    };
    cx.nt_if(is_nontrivial(&c.input));
    cx.label_if(!c.input.is_ascii(), "non-ascii-input");
    cx.label_if(c.max_length.is_some(), "bounded");
    cx.label_if(c.sep.is_none(), "no-separator");
    cx.note(|| format!("{:?} -> {:?}", c.input, out));
    if let Some(m) = c.max_length {
        ensure!(out.chars().count() <= m, "output {out:?} has more than max_length={m} characters");
    }
    match c.sep {
        Some(sep) => {
            if let Err(e) = model::well_formed(&out, sep, c.lowercase, c.keep_zeros) {
                return fail(format!("output {out:?} for input {:?}: {e}", c.input));
            }
            match c.max_length {
                None => {
                    let want = model::model(&c.input, &sep.to_string(), c.lowercase, c.keep_zeros);
                    ensure!(out == want, "output {out:?} != contract {want:?} for input {:?}", c.input);
                }
                Some(m) => {
                    // the bound only matters when the contract output is longer than it
                    let full = model::model(&c.input, &sep.to_string(), c.lowercase, c.keep_zeros);
                    if full.chars().count() <= m {
                        cx.label("bound-not-binding");
                        ensure!(out == full, "the contract output {full:?} fits max_length={m}, but the sanitiser returned {out:?} for input {:?}", c.input);
                    }
                    ensure!(
                        model::bounded_ok(&out, &c.input, sep, c.lowercase, c.keep_zeros, m),
                        "bounded output {out:?} is not a (re-normalised) prefix of the contract output {:?}",
                        model::model(&c.input, &sep.to_string(), c.lowercase, c.keep_zeros)
                    );
                }
            }
        }
        None => {}
    }
    // idempotence (all settings)
    match san(&out) {
        Ok(again) => ensure!(again == out, "not idempotent: {:?} -> {out:?} -> {again:?}", c.input),
        Err(p) => return fail(format!("sanitiser failed on its own output {out:?}: {p}")),
    }
    Ok(())
}

fn direct(c: &StrCase) -> impl Fn(&str) -> Result<String, String> + '_ {
    move |s: &str| {
        let sep = c.sep.map(|c| c.to_string());
        let z = Sanitizer::str(sep.as_deref(), c.lowercase, c.keep_zeros, c.max_length);
        no_panic(|| z.sanitize(s))
    }
}

fn tera_str(s: &str) -> String {
    // a Tera double-quoted string literal cannot contain '"' (no escapes): callers avoid it
    format!("\"{s}\"")
}

#[derive(Debug, Clone, Hash, Serialize, Deserialize)]
pub struct PresetCase {
    pub input: String,
    pub preset: u8, // 0 semver_str 1 pep440_local_str 2 key 3 uint
}
#[derive(Debug, Clone, Hash, Serialize, Deserialize)]
pub struct TplCase {
    pub case: StrCase,
    pub preset: Option<u8>,
}

fn strings_upto(max_len: usize, shard: usize, nshards: usize, f: &mut dyn FnMut(&str) -> bool) {
    // shortest first; index-sharded
    let mut idx = 0usize;
    for len in 0..=max_len {
        let total = ALPHA.len().pow(len as u32);
        for n in 0..total {
            if idx % nshards == shard {
                let mut s = String::with_capacity(len * 2);
                let mut x = n;
                for _ in 0..len {
                    s.push(ALPHA[x % ALPHA.len()]);
                    x /= ALPHA.len();
                }
                if !f(&s) {
                    return;
                }
            }
            idx += 1;
        }
    }
}

fn str_case_strategy() -> BoxedStrategy<StrCase> {
    (
        prop_oneof![3 => gens::text::unicode(64), 3 => gens::text::nasty(), 2 => gens::text::segmented()],
        prop_oneof![
            6 => gens::pick(&[Some('.'), Some('-'), Some('_')]),
            2 => gens::pick(&[Some('+'), Some('~'), Some(' '), Some('/'), Some(':')]),
            // a separator need not be ASCII
            1 => gens::pick(&[Some('·'), Some('–'), Some('→'), Some('\u{3000}'), Some('|')]),
            1 => Just(None)
        ],
        any::<bool>(),
        any::<bool>(),
        prop_oneof![2 => Just(None), 3 => (0usize..20).prop_map(Some), 1 => (0usize..200).prop_map(Some)],
    )
        .prop_map(|(input, sep, lowercase, keep_zeros, max_length)| StrCase { input, sep, lowercase, keep_zeros, max_length })
        .boxed()
}

pub fn property() -> Property {
    let enum_sub = EnumSub::<StrCase>::new(
        "enum-str",
        "all strings of length <=5 (quick) / <=6 (thorough) over {a Z 0 1 . - _ / é} x {sep . - _ none} x lowercase x keep_zeros x max_length {none,0,1,2,3,5,8}",
        |tier, shard, n, visit| {
            let maxlen = tier.pick(5, 6);
            strings_upto(maxlen, shard, n, &mut |s| {
                for sep in SEPS {
                    for lowercase in [false, true] {
                        for keep_zeros in [false, true] {
                            for max_length in MAXES {
                                let c = StrCase { input: s.to_string(), sep, lowercase, keep_zeros, max_length };
                                if !visit(&c) {
                                    return false;
                                }
                            }
                        }
                    }
                }
                true
            })
        },
        |c, cx| check_str(c, &direct(c), cx),
    );

    let rand_sub = RandomSub::<StrCase>::new(
        "rand-unicode",
        (200_000, 6_000_000),
        |_| str_case_strategy(),
        |c, cx| check_str(c, &direct(c), cx),
    )
    .floor(0.5);

    let preset_sub = RandomSub::<PresetCase>::new(
        "presets",
        (100_000, 3_000_000),
        |_| {
            (prop_oneof![2 => gens::text::unicode(40), 3 => gens::text::nasty(), 1 => "[ \t]{0,2}[0-9]{1,25}[ \n]{0,2}", 1 => "[0-9]{0,6}"], 0u8..4)
                .prop_map(|(input, preset)| PresetCase { input, preset })
                .boxed()
        },
        |c, cx| {
            let z = match c.preset {
                0 => Sanitizer::semver_str(),
                1 => Sanitizer::pep440_local_str(),
                2 => Sanitizer::key(),
                _ => Sanitizer::uint(),
            };
            let out = match no_panic(|| z.sanitize(&c.input)) {
                Ok(o) => o,
                Err(p) => return fail(format!("panic on {:?}: {p}", c.input)),
            };
            cx.note(|| format!("preset {} {:?} -> {:?}", c.preset, c.input, out));
            if c.preset == 3 {
                cx.nt_if(!c.input.is_empty());
                let t = c.input.trim();
                if t.len() != c.input.len() {
                    // surrounding whitespace: the statement requires "" (not purely numeric);
                    // zerv documents trimming — both readings are accepted
                    let a = model::uint_model(t);
                    ensure!(out.is_empty() || out == a, "uint({:?}) = {out:?}, expected \"\" or {a:?}", c.input);
                } else {
                    let want = model::uint_model(&c.input);
                    ensure!(out == want, "uint({:?}) = {out:?}, contract {want:?}", c.input);
                }
                let again = z.sanitize(&out);
                ensure!(again == out, "uint not idempotent on {:?}", c.input);
            } else {
                cx.nt_if(is_nontrivial(&c.input));
                let want = model::model(&c.input, ".", c.preset != 0, false);
                ensure!(out == want, "preset {} output {out:?} != contract {want:?} for {:?}", c.preset, c.input);
            }
            Ok(())
        },
    )
    .floor(0.5);

    // the template function path: {{ sanitize(value=..., separator=..., ...) }}
    let tpl_sub = RandomSub::<TplCase>::new(
        "template-fn",
        (20_000, 400_000),
        |_| {
            (str_case_strategy(), prop_oneof![2 => Just(None), 1 => (0u8..4).prop_map(Some)], proptest::option::weighted(0.2, "[1-9][0-9]{0,17}"))
                .prop_map(|(mut case, preset, number)| {
                    // a fifth of the cases are plain numbers, which can also travel as a JSON number
                    if let Some(n) = number {
                        case.input = n;
                    }
                    // value travels inside a Tera string literal between sentinels
                    case.input = case.input.chars().filter(|c| !matches!(c, '"' | '\\' | '\n' | '\r')).collect();
                    if matches!(case.sep, Some(' ')) {
                        case.sep = Some('.');
                    }
                    TplCase { case, preset }
                })
                .boxed()
        },
        |t, cx| {
            let c = &t.case;
            let render = |val: &str, preset: Option<u8>| -> Result<String, String> {
                let args = match preset {
                    Some(p) => format!(
                        "preset=\"{}\"",
                        ["semver_str", "pep440_local_str", "lower_dotted", "uint"][p as usize]
                    ),
                    None => {
                        let mut a = vec![format!("lowercase={}", c.lowercase), format!("keep_zeros={}", c.keep_zeros)];
                        if let Some(s) = c.sep {
                            a.push(format!("separator=\"{s}\""));
                        }
                        if let Some(m) = c.max_length {
                            a.push(format!("max_length={m}"));
                        }
                        a.join(", ")
                    }
                };
                let tpl = format!("<<{{{{ sanitize(value={}, {args}) }}}}>>", tera_str(val));
                let r = no_panic(|| Template::<String>::new(tpl.clone()).render(None))?;
                match r {
                    Ok(Some(s)) => {
                        let s = s.strip_prefix("<<").and_then(|s| s.strip_suffix(">>")).ok_or_else(|| format!("sentinels lost in {s:?}"))?;
                        Ok(s.to_string())
                    }
                    Ok(None) => Err("template rendered to None".into()),
                    Err(e) => Err(format!("template error: {e}")),
                }
            };
            // the same digits as a number (a numeric literal here; numeric variables take the same
            // path) must give what the text gives
            let numeric = !c.input.is_empty() && c.input.len() <= 18 && c.input.bytes().all(|b| b.is_ascii_digit()) && (c.input == "0" || !c.input.starts_with('0'));
            if numeric && t.preset.is_none() {
                let mut a = vec![format!("lowercase={}", c.lowercase), format!("keep_zeros={}", c.keep_zeros)];
                if let Some(sp) = c.sep {
                    a.push(format!("separator=\"{sp}\""));
                }
                if let Some(m) = c.max_length {
                    a.push(format!("max_length={m}"));
                }
                let tpl = format!("<<{{{{ sanitize(value={}, {}) }}}}>>", c.input, a.join(", "));
                let as_number = match no_panic(|| Template::<String>::new(tpl.clone()).render(None)) {
                    Ok(Ok(Some(x))) => x.strip_prefix("<<").and_then(|x| x.strip_suffix(">>")).map(String::from),
                    Ok(_) => None,
                    Err(p) => return fail(format!("panic rendering {tpl:?}: {p}")),
                };
                let as_text = render(&c.input, None).ok();
                cx.label("numeric-value");
                ensure!(as_number == as_text, "sanitize(value={}, ...) with the number gives {as_number:?}, with the same digits as text {as_text:?} ({tpl})", c.input);
            }
            match t.preset {
                None => check_str(c, &|s| render(s, None), cx),
                Some(p) => {
                    let out = match render(&c.input, Some(p)) {
                        Ok(o) => o,
                        Err(e) => return fail(e),
                    };
                    cx.nt_if(is_nontrivial(&c.input));
                    if p == 3 {
                        let t = c.input.trim();
                        let a = model::uint_model(t);
                        ensure!(out == a || (t.len() != c.input.len() && out.is_empty()), "uint preset {:?} -> {out:?}", c.input);
                    } else {
                        let want = model::model(&c.input, ".", p != 0, false);
                        ensure!(out == want, "template preset {p}: {out:?} != {want:?} for {:?}", c.input);
                    }
                    Ok(())
                }
            }
        },
    )
    .floor(0.5);

    Property {
        id: "C16",
        rule: "cases = (input string, separator, lowercase, keep_zeros, max_length); exhaustive over short strings of a 9-symbol alphabet x 112 settings, random Unicode/nasty strings x random settings, the three presets + uint, and the template function path. Non-trivial = input contains a character outside [A-Za-z0-9] or an all-digit run with a leading zero; distinct = distinct (input, settings) tuples (enumeration never repeats; random cases de-duplicated by hash).",
        assumptions: vec![
            "separator is a single non-alphanumeric character, ASCII or not (or none)",
            "with max_length, any re-normalised prefix of the unbounded contract output is accepted",
            "uint: input with surrounding whitespace may yield \"\" or the trimmed digits",
        ],
        subs: vec![enum_sub.boxed(), rand_sub.boxed(), preset_sub.boxed(), tpl_sub.boxed()],
        known_repro: vec![],
    }
}
