//! SemVer 2.0.0: hand-written recogniser of the BNF and the §11 precedence comparator.
//! Numbers are kept as digit strings (arbitrary precision).  No regex, no zerv.
use std::cmp::Ordering;

#[derive(Debug, Clone, PartialEq, Eq)]
pub struct Sem {
    pub major: String,
    pub minor: String,
    pub patch: String,
    pub pre: Option<Vec<String>>,
    pub build: Option<Vec<String>>,
}

fn is_numeric_ident(s: &str) -> bool {
    !s.is_empty() && s.bytes().all(|b| b.is_ascii_digit()) && (s == "0" || !s.starts_with('0'))
}
fn is_ident_chars(s: &str) -> bool {
    !s.is_empty() && s.bytes().all(|b| b.is_ascii_alphanumeric() || b == b'-')
}
fn is_prerelease_ident(s: &str) -> bool {
    if !is_ident_chars(s) {
        return false;
    }
    if s.bytes().all(|b| b.is_ascii_digit()) { is_numeric_ident(s) } else { true }
}

/// <valid semver> per the BNF; no `v` prefix handling here.
pub fn parse(s: &str) -> Option<Sem> {
    if !s.is_ascii() {
        return None;
    }
    // split off build at the first '+', then pre-release at the first '-' of the rest
    let (rest, build) = match s.find('+') {
        Some(i) => (&s[..i], Some(&s[i + 1..])),
        None => (s, None),
    };
    let (core, pre) = match rest.find('-') {
        Some(i) => (&rest[..i], Some(&rest[i + 1..])),
        None => (rest, None),
    };
    let parts: Vec<&str> = core.split('.').collect();
    if parts.len() != 3 || !parts.iter().all(|p| is_numeric_ident(p)) {
        return None;
    }
    let pre = match pre {
        None => None,
        Some(p) => {
            let ids: Vec<&str> = p.split('.').collect();
            if !ids.iter().all(|i| is_prerelease_ident(i)) {
                return None;
            }
            Some(ids.into_iter().map(String::from).collect())
        }
    };
    let build = match build {
        None => None,
        Some(b) => {
            let ids: Vec<&str> = b.split('.').collect();
            if !ids.iter().all(|i| is_ident_chars(i)) {
                return None;
            }
            Some(ids.into_iter().map(String::from).collect())
        }
    };
    Some(Sem { major: parts[0].into(), minor: parts[1].into(), patch: parts[2].into(), pre, build })
}

/// accepts one optional leading `v` (what the property allows)
pub fn parse_v(s: &str) -> Option<Sem> {
    parse(s.strip_prefix('v').unwrap_or(s))
}

/// compare two canonical (no leading zeros) digit strings by value
pub fn cmp_digits(a: &str, b: &str) -> Ordering {
    a.len().cmp(&b.len()).then_with(|| a.cmp(b))
}
pub fn fits_u64(d: &str) -> bool {
    cmp_digits(d, "18446744073709551615") != Ordering::Greater
}
pub fn fits_u32(d: &str) -> bool {
    cmp_digits(d, "4294967295") != Ordering::Greater
}
fn all_digits(s: &str) -> bool {
    !s.is_empty() && s.bytes().all(|b| b.is_ascii_digit())
}

pub fn cmp_ident(a: &str, b: &str) -> Ordering {
    match (all_digits(a), all_digits(b)) {
        (true, true) => cmp_digits(a, b),
        (true, false) => Ordering::Less,
        (false, true) => Ordering::Greater,
        (false, false) => a.as_bytes().cmp(b.as_bytes()),
    }
}

/// SemVer 2.0.0 §11 precedence (build metadata ignored)
pub fn cmp(a: &Sem, b: &Sem) -> Ordering {
    cmp_digits(&a.major, &b.major)
        .then_with(|| cmp_digits(&a.minor, &b.minor))
        .then_with(|| cmp_digits(&a.patch, &b.patch))
        .then_with(|| match (&a.pre, &b.pre) {
            (None, None) => Ordering::Equal,
            (None, Some(_)) => Ordering::Greater,
            (Some(_), None) => Ordering::Less,
            (Some(x), Some(y)) => {
                for (i, j) in x.iter().zip(y.iter()) {
                    let o = cmp_ident(i, j);
                    if o != Ordering::Equal {
                        return o;
                    }
                }
                x.len().cmp(&y.len())
            }
        })
}

/// every number (core + numeric pre-release ids) representable in u64
pub fn all_numbers_fit_u64(s: &Sem) -> bool {
    fits_u64(&s.major)
        && fits_u64(&s.minor)
        && fits_u64(&s.patch)
        && s.pre.iter().flatten().all(|i| !all_digits(i) || fits_u64(i))
}
pub fn build_numbers_fit_u64(s: &Sem) -> bool {
    s.build.iter().flatten().all(|i| !all_digits(i) || i.starts_with('0') && i != "0" || fits_u64(i))
}

pub fn print(s: &Sem) -> String {
    let mut o = format!("{}.{}.{}", s.major, s.minor, s.patch);
    if let Some(p) = &s.pre {
        o.push('-');
        o.push_str(&p.join("."));
    }
    if let Some(b) = &s.build {
        o.push('+');
        o.push_str(&b.join("."));
    }
    o
}

#[cfg(test)]
mod tests {
    use super::*;
    #[test]
    fn spec_examples() {
        for ok in ["0.0.4", "1.2.3", "10.20.30", "1.1.2-prerelease+meta", "1.1.2+meta", "1.1.2+meta-valid", "1.0.0-alpha",
            "1.0.0-beta", "1.0.0-alpha.beta", "1.0.0-alpha.beta.1", "1.0.0-alpha.1", "1.0.0-alpha0.valid", "1.0.0-alpha.0valid",
            "1.0.0-alpha-a.b-c-somethinglong+build.1-aef.1-its-okay", "1.0.0-rc.1+build.1", "2.0.0-rc.1+build.123", "1.2.3-beta",
            "10.2.3-DEV-SNAPSHOT", "1.2.3-SNAPSHOT-123", "1.0.0", "2.0.0", "1.1.7", "2.0.0+build.1848", "2.0.1-alpha.1227",
            "1.0.0-alpha+beta", "1.2.3----RC-SNAPSHOT.12.9.1--.12+788", "1.2.3----R-S.12.9.1--.12+meta", "1.2.3----RC-SNAPSHOT.12.9.1--.12",
            "1.0.0+0.build.1-rc.10000aaa-kk-0.1", "99999999999999999999999.999999999999999999.99999999999999999", "1.0.0-0A.is.legal", "1.0.0+007", "1.0.0--", "1.0.0-0-0"] {
            assert!(parse(ok).is_some(), "{ok}");
            assert_eq!(print(&parse(ok).unwrap()), ok);
        }
        for bad in ["1", "1.2", "1.2.3-0123", "1.2.3-0123.0123", "1.1.2+.123", "+invalid", "-invalid", "-invalid+invalid", "-invalid.01", "alpha",
            "alpha.beta", "alpha.beta.1", "alpha.1", "alpha+beta", "alpha_beta", "alpha.", "alpha..", "beta", "1.0.0-alpha_beta", "-alpha.", "1.0.0-alpha..",
            "1.0.0-alpha..1", "1.0.0-alpha...1", "1.0.0-alpha....1", "1.0.0-alpha.....1", "1.0.0-alpha......1", "1.0.0-alpha.......1", "01.1.1", "1.01.1",
            "1.1.01", "1.2", "1.2.3.DEV", "1.2-SNAPSHOT", "1.2.31.2.3----RC-SNAPSHOT.12.09.1--..12+788", "1.2-RC-SNAPSHOT", "-1.0.3-gamma+b7718", "+justmeta",
            "9.8.7+meta+meta", "9.8.7-whatever+meta+meta", "", "1.0.0-", "1.0.0+", "1.0.0-a+", "1.0.0-+a", " 1.0.0", "1.0.0 ", "1.0.0-é", "1.0.0-٣a"] {
            assert!(parse(bad).is_none(), "{bad}");
        }
        let chain = ["1.0.0-alpha", "1.0.0-alpha.1", "1.0.0-alpha.beta", "1.0.0-beta", "1.0.0-beta.2", "1.0.0-beta.11", "1.0.0-rc.1", "1.0.0", "2.0.0", "2.1.0", "2.1.1"];
        for w in chain.windows(2) {
            assert_eq!(cmp(&parse(w[0]).unwrap(), &parse(w[1]).unwrap()), Ordering::Less);
        }
        assert_eq!(cmp(&parse("1.0.0+a").unwrap(), &parse("1.0.0+b").unwrap()), Ordering::Equal);
        assert_eq!(cmp(&parse("1.0.0-1").unwrap(), &parse("1.0.0-a").unwrap()), Ordering::Less);
        assert_eq!(cmp(&parse("1.0.0-99999999999999999999").unwrap(), &parse("1.0.0-100000000000000000000").unwrap()), Ordering::Less);
    }
}
