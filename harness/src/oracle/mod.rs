//! Independent reference models (DESIGN.md §4).  Nothing in here calls zerv.
pub mod bump;
pub mod calendar;
pub mod flow;
pub mod pep440;
pub mod render;
pub mod sanitize;
pub mod semver;
