//! Independent reference models (DESIGN.md §4).  Nothing in here calls zerv.
pub mod sanitize;
