//! Reference model of `zerv flow` (C04): tag x branch x distance x dirty x options -> components.
use serde::{Deserialize, Serialize};

#[derive(Debug, Clone, Hash, PartialEq, Eq, Serialize, Deserialize)]
pub struct Rule {
    pub pattern: String,
    pub label: u8,        // 0 alpha 1 beta 2 rc
    pub num: Option<u64>, // explicit number
    pub tag_mode: bool,
}
pub fn default_rules() -> Vec<Rule> {
    vec![
        Rule { pattern: "develop".into(), label: 1, num: Some(1), tag_mode: false },
        Rule { pattern: "release/*".into(), label: 2, num: None, tag_mode: true },
        Rule { pattern: "*".into(), label: 0, num: None, tag_mode: false },
    ]
}
pub fn rule_valid(r: &Rule) -> bool {
    let wild = r.pattern == "*" || r.pattern.ends_with("/*");
    if wild { r.num.is_none() } else { r.num.is_some() }
}
pub fn rules_ron(rules: &[Rule]) -> String {
    let items: Vec<String> = rules
        .iter()
        .map(|r| {
            let esc = r.pattern.replace('\\', "\\\\").replace('"', "\\\"");
            let num = match r.num {
                Some(n) => format!(", pre_release_num: Some({n})"),
                None => String::new(),
            };
            format!("(pattern: \"{esc}\", pre_release_label: {}{num}, post_mode: {})", ["alpha", "beta", "rc"][r.label as usize % 3], if r.tag_mode { "tag" } else { "commit" })
        })
        .collect();
    format!("[{}]", items.join(", "))
}

/// `prefix/*` matches only names under `prefix/` (with something after it); `*` any non-empty name
pub fn matches(pattern: &str, branch: &str) -> bool {
    if pattern == "*" {
        !branch.is_empty()
    } else if let Some(prefix) = pattern.strip_suffix('*').filter(|p| p.ends_with('/')) {
        branch.starts_with(prefix) && branch.len() > prefix.len()
    } else {
        pattern == branch
    }
}
fn first_numeric_segment(path: &str) -> Option<String> {
    path.split('/').find(|s| !s.is_empty() && s.bytes().all(|b| b.is_ascii_digit())).map(|s| {
        let t = s.trim_start_matches('0');
        if t.is_empty() { "0".to_string() } else { t.to_string() }
    })
}

#[derive(Debug, Clone, PartialEq, Eq)]
pub enum Number {
    /// a definite value
    Value(u64),
    /// branch-name hash of the configured length
    Hash,
    /// an all-digit segment that does not fit u32: hash or error are both acceptable
    TooBigSegment,
}
#[derive(Debug, Clone, PartialEq, Eq)]
pub struct Resolved {
    pub label: u8,
    pub number: Number,
    pub tag_mode: bool,
    /// the lookup was decided by something other than the trailing `*` rule
    pub decided_by_specific_rule: bool,
}

pub fn resolve(rules: &[Rule], branch: Option<&str>, flag_label: Option<u8>, flag_num: Option<u64>, flag_tag_mode: Option<bool>) -> Resolved {
    let rule = branch.and_then(|b| rules.iter().find(|r| matches(&r.pattern, b)));
    let (rl, rn, rm, specific) = match (rule, branch) {
        (Some(r), Some(b)) => {
            let n = match r.num {
                Some(n) => Number::Value(n),
                None => {
                    let rest = if r.pattern == "*" { b } else { &b[r.pattern.len() - 1..] };
                    match first_numeric_segment(rest) {
                        Some(d) => match d.parse::<u32>() {
                            Ok(v) => Number::Value(v as u64),
                            Err(_) => Number::TooBigSegment,
                        },
                        None => Number::Hash,
                    }
                }
            };
            (r.label, n, r.tag_mode, r.pattern != "*")
        }
        _ => (0, Number::Hash, false, false),
    };
    Resolved {
        label: flag_label.unwrap_or(rl),
        number: match flag_num {
            Some(n) => Number::Value(n),
            None => rn,
        },
        tag_mode: flag_tag_mode.unwrap_or(rm),
        decided_by_specific_rule: specific,
    }
}

#[derive(Debug, Clone, Default, PartialEq, Eq)]
pub struct TagVars {
    pub epoch: Option<u64>,
    pub major: u64,
    pub minor: u64,
    pub patch: u64,
    pub pre: Option<(u8, Option<u64>)>,
    pub post: Option<u64>,
    pub dev: Option<u64>,
}
#[derive(Debug, Clone, PartialEq, Eq)]
pub struct Expected {
    pub epoch: Option<u64>,
    pub major: u64,
    pub minor: u64,
    pub patch: u64,
    /// None = unchanged from tag (clean); Some((label, number))
    pub pre: Option<(u8, Number)>,
    pub pre_unchanged: Option<Option<(u8, Option<u64>)>>,
    /// post value; `post_zero_or_absent` when the sum is 0 and nothing says whether 0 is printed
    pub post: Option<u64>,
    pub post_zero_or_absent: bool,
    pub dev_expected: bool,
    pub dev_unchanged: Option<Option<u64>>,
    pub active: bool,
}

pub fn expect(tag: &TagVars, r: &Resolved, distance: Option<u64>, dirty: bool, flag_post: Option<u64>) -> Result<Expected, String> {
    let d = distance.unwrap_or(0);
    let active = dirty || d > 0;
    let base_post = flag_post.or(tag.post);
    if !active {
        return Ok(Expected {
            epoch: tag.epoch, major: tag.major, minor: tag.minor, patch: tag.patch,
            pre: None, pre_unchanged: Some(tag.pre),
            post: base_post, post_zero_or_absent: false,
            dev_expected: false, dev_unchanged: Some(tag.dev), active,
        });
    }
    let patch = if tag.pre.is_none() { tag.patch.checked_add(1).ok_or("patch overflow")? } else { tag.patch };
    let inc = if r.tag_mode { 1 } else { d };
    let post = base_post.unwrap_or(0).checked_add(inc).ok_or("post overflow")?;
    let dev_expected = if r.tag_mode { dirty || d > 0 } else { dirty };
    Ok(Expected {
        epoch: tag.epoch, major: tag.major, minor: tag.minor, patch,
        pre: Some((r.label, r.number.clone())), pre_unchanged: None,
        post: Some(post), post_zero_or_absent: post == 0 && base_post.is_none(),
        dev_expected, dev_unchanged: None, active,
    })
}

#[cfg(test)]
mod tests {
    use super::*;
    #[test]
    fn rules() {
        assert!(matches("release/*", "release/1"));
        assert!(!matches("release/*", "release/"));
        assert!(!matches("release/*", "releasenotes"));
        assert!(!matches("release/*", "release"));
        assert!(matches("*", "x"));
        assert!(!matches("*", ""));
        let r = resolve(&default_rules(), Some("release/2/x"), None, None, None);
        assert_eq!((r.label, r.number.clone(), r.tag_mode), (2, Number::Value(2), true));
        let r = resolve(&default_rules(), Some("releasenotes"), None, None, None);
        assert_eq!((r.label, r.number.clone(), r.tag_mode), (0, Number::Hash, false));
        let r = resolve(&default_rules(), Some("feature/007/y"), None, None, None);
        assert_eq!(r.number, Number::Value(7));
        let r = resolve(&default_rules(), Some("develop"), Some(2), None, Some(true));
        assert_eq!((r.label, r.number.clone(), r.tag_mode), (2, Number::Value(1), true));
        assert_eq!(rules_ron(&default_rules()), "[(pattern: \"develop\", pre_release_label: beta, pre_release_num: Some(1), post_mode: commit), (pattern: \"release/*\", pre_release_label: rc, post_mode: tag), (pattern: \"*\", pre_release_label: alpha, post_mode: commit)]");
    }
}
