//! Proleptic-Gregorian UTC calendar from a Unix timestamp (Hinnant's civil_from_days),
//! independent of chrono.
#[derive(Debug, Clone, Copy, PartialEq, Eq)]
pub struct Civil {
    pub year: i64,
    pub month: u32,
    pub day: u32,
    pub hour: u32,
    pub minute: u32,
    pub second: u32,
    /// 0 = Monday … 6 = Sunday
    pub weekday_mon0: u32,
    /// 0-based day of the year
    pub yday: u32,
}

pub fn is_leap(y: i64) -> bool {
    (y % 4 == 0 && y % 100 != 0) || y % 400 == 0
}

pub fn civil(ts: u64) -> Civil {
    let days = (ts / 86400) as i64;
    let rem = ts % 86400;
    // civil_from_days
    let z = days + 719468;
    let era = z.div_euclid(146097);
    let doe = z.rem_euclid(146097);
    let yoe = (doe - doe / 1460 + doe / 36524 - doe / 146096) / 365;
    let y = yoe + era * 400;
    let doy = doe - (365 * yoe + yoe / 4 - yoe / 100);
    let mp = (5 * doy + 2) / 153;
    let d = (doy - (153 * mp + 2) / 5 + 1) as u32;
    let m = if mp < 10 { mp + 3 } else { mp - 9 } as u32;
    let year = if m <= 2 { y + 1 } else { y };
    // 1970-01-01 was a Thursday (Mon0 = 3)
    let weekday_mon0 = ((days + 3).rem_euclid(7)) as u32;
    let cum = [0u32, 31, 59, 90, 120, 151, 181, 212, 243, 273, 304, 334];
    let mut yday = cum[(m - 1) as usize] + d - 1;
    if m > 2 && is_leap(year) {
        yday += 1;
    }
    Civil {
        year,
        month: m,
        day: d,
        hour: (rem / 3600) as u32,
        minute: (rem % 3600 / 60) as u32,
        second: (rem % 60) as u32,
        weekday_mon0,
        yday,
    }
}

impl Civil {
    /// strftime %W: week of the year, Monday first; days before the first Monday are week 0
    pub fn week_monday(&self) -> u32 {
        (self.yday + 7 - self.weekday_mon0) / 7
    }
    /// strftime %U: Sunday first
    pub fn week_sunday(&self) -> u32 {
        let wd_sun0 = (self.weekday_mon0 + 1) % 7;
        (self.yday + 7 - wd_sun0) / 7
    }
}

pub const PATTERNS: [&str; 16] =
    ["YYYY", "YY", "MM", "0M", "DD", "0D", "HH", "0H", "mm", "0m", "SS", "0S", "WW", "0W", "compact_date", "compact_datetime"];

/// the documented value of a timestamp pattern
pub fn pattern_value(p: &str, c: &Civil) -> Option<String> {
    Some(match p {
        "YYYY" => format!("{}", c.year),
        "YY" => format!("{:02}", c.year.rem_euclid(100)),
        "MM" => format!("{}", c.month),
        "0M" => format!("{:02}", c.month),
        "DD" => format!("{}", c.day),
        "0D" => format!("{:02}", c.day),
        "HH" => format!("{}", c.hour),
        "0H" => format!("{:02}", c.hour),
        "mm" => format!("{}", c.minute),
        "0m" => format!("{:02}", c.minute),
        "SS" => format!("{}", c.second),
        "0S" => format!("{:02}", c.second),
        "WW" => format!("{}", c.week_monday()),
        "0W" => format!("{:02}", c.week_monday()),
        "compact_date" => format!("{:04}{:02}{:02}", c.year, c.month, c.day),
        "compact_datetime" => format!("{:04}{:02}{:02}{:02}{:02}{:02}", c.year, c.month, c.day, c.hour, c.minute, c.second),
        _ => return None,
    })
}

const WD: [&str; 7] = ["Mon", "Tue", "Wed", "Thu", "Fri", "Sat", "Sun"];
const MON: [&str; 12] = ["Jan", "Feb", "Mar", "Apr", "May", "Jun", "Jul", "Aug", "Sep", "Oct", "Nov", "Dec"];
/// a subset of strftime (what C15's format_timestamp check generates)
pub fn strftime(fmt: &str, c: &Civil, ts: u64) -> Option<String> {
    let mut o = String::new();
    let mut it = fmt.chars();
    while let Some(ch) = it.next() {
        if ch != '%' {
            o.push(ch);
            continue;
        }
        let mut spec = it.next()?;
        let mut nopad = false;
        if spec == '-' {
            nopad = true;
            spec = it.next()?;
        }
        let num = |v: i64, w: usize| if nopad { format!("{v}") } else { format!("{v:0w$}") };
        match spec {
            'Y' => o.push_str(&format!("{}", c.year)),
            'y' => o.push_str(&num(c.year.rem_euclid(100), 2)),
            'm' => o.push_str(&num(c.month as i64, 2)),
            'd' => o.push_str(&num(c.day as i64, 2)),
            'H' => o.push_str(&num(c.hour as i64, 2)),
            'M' => o.push_str(&num(c.minute as i64, 2)),
            'S' => o.push_str(&num(c.second as i64, 2)),
            'j' => o.push_str(&num(c.yday as i64 + 1, 3)),
            'W' => o.push_str(&num(c.week_monday() as i64, 2)),
            'U' => o.push_str(&num(c.week_sunday() as i64, 2)),
            'u' => o.push_str(&format!("{}", c.weekday_mon0 + 1)),
            'w' => o.push_str(&format!("{}", (c.weekday_mon0 + 1) % 7)),
            'a' => o.push_str(WD[c.weekday_mon0 as usize]),
            'b' => o.push_str(MON[(c.month - 1) as usize]),
            's' => o.push_str(&format!("{ts}")),
            'F' => o.push_str(&format!("{}-{:02}-{:02}", c.year, c.month, c.day)),
            'T' => o.push_str(&format!("{:02}:{:02}:{:02}", c.hour, c.minute, c.second)),
            '%' => o.push('%'),
            // the zone of every zerv date is UTC
            'z' => o.push_str("+0000"),
            ':' => {
                if it.next()? != 'z' {
                    return None;
                }
                o.push_str("+00:00");
            }
            'Z' => o.push_str("UTC"),
            '+' => o.push_str(&format!("{}-{:02}-{:02}T{:02}:{:02}:{:02}+00:00", c.year, c.month, c.day, c.hour, c.minute, c.second)),
            'e' => o.push_str(&format!("{:>2}", c.day)),
            'k' => o.push_str(&format!("{:>2}", c.hour)),
            'I' => o.push_str(&format!("{:02}", if c.hour % 12 == 0 { 12 } else { c.hour % 12 })),
            'l' => o.push_str(&format!("{:>2}", if c.hour % 12 == 0 { 12 } else { c.hour % 12 })),
            'p' => o.push_str(if c.hour < 12 { "AM" } else { "PM" }),
            'A' => o.push_str(["Monday", "Tuesday", "Wednesday", "Thursday", "Friday", "Saturday", "Sunday"][c.weekday_mon0 as usize]),
            'B' => o.push_str(["January", "February", "March", "April", "May", "June", "July", "August", "September", "October", "November", "December"][(c.month - 1) as usize]),
            'h' => o.push_str(MON[(c.month - 1) as usize]),
            'C' => o.push_str(&format!("{:02}", c.year.div_euclid(100))),
            'R' => o.push_str(&format!("{:02}:{:02}", c.hour, c.minute)),
            'D' => o.push_str(&format!("{:02}/{:02}/{:02}", c.month, c.day, c.year.rem_euclid(100))),
            _ => return None,
        }
    }
    Some(o)
}

#[cfg(test)]
mod tests {
    use super::*;
    #[test]
    fn known_dates() {
        let c = civil(0);
        assert_eq!((c.year, c.month, c.day, c.weekday_mon0, c.yday), (1970, 1, 1, 3, 0));
        let c = civil(1710511845); // 2024-03-15 14:10:45 UTC, Friday
        assert_eq!((c.year, c.month, c.day, c.hour, c.minute, c.second, c.weekday_mon0), (2024, 3, 15, 14, 10, 45, 4));
        assert_eq!(c.yday, 74);
        assert_eq!(c.week_monday(), 11);
        let c = civil(951782400); // 2000-02-29
        assert_eq!((c.year, c.month, c.day), (2000, 2, 29));
        let c = civil(4107542399); // 2100-02-28 23:59:59
        assert_eq!((c.year, c.month, c.day, c.hour, c.minute, c.second), (2100, 2, 28, 23, 59, 59));
        let c = civil(4107542400); // 2100-03-01 (2100 is not a leap year)
        assert_eq!((c.year, c.month, c.day), (2100, 3, 1));
        // 2024-01-01 is a Monday: week 1 by %W; 2023-01-01 is a Sunday: week 0
        assert_eq!(civil(1704067200).week_monday(), 1);
        assert_eq!(civil(1672531200).week_monday(), 0);
        assert_eq!(civil(1672531200 + 86400).week_monday(), 1);
        assert_eq!(pattern_value("compact_datetime", &civil(1710511845)).unwrap(), "20240315141045");
        assert_eq!(strftime("%a %A %b %B %e %k %I %l %p %C %R %D %z %:z %Z", &civil(1710511845), 1710511845).unwrap(), "Fri Friday Mar March 15 14 02  2 PM 20 14:10 03/15/24 +0000 +00:00 UTC");
        assert_eq!(strftime("%+", &civil(951782400 + 5), 951782405).unwrap(), "2000-02-29T00:00:05+00:00");
    }
}
