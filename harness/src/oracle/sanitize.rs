//! Reference model of the string / integer sanitiser contract (C16), written from the
//! property statement only.

/// maximal runs of ASCII letters and digits, in order
pub fn runs(input: &str) -> Vec<String> {
    let mut out = Vec::new();
    let mut cur = String::new();
    for ch in input.chars() {
        if ch.is_ascii_alphanumeric() {
            cur.push(ch);
        } else if !cur.is_empty() {
            out.push(std::mem::take(&mut cur));
        }
    }
    if !cur.is_empty() {
        out.push(cur);
    }
    out
}

pub fn strip_zeros_seg(seg: &str) -> String {
    if !seg.is_empty() && seg.bytes().all(|b| b.is_ascii_digit()) {
        let t = seg.trim_start_matches('0');
        if t.is_empty() { "0".to_string() } else { t.to_string() }
    } else {
        seg.to_string()
    }
}

/// the unbounded contract: runs, optionally lower-cased, zero-stripped, joined by `sep`
pub fn model(input: &str, sep: &str, lowercase: bool, keep_zeros: bool) -> String {
    runs(input)
        .into_iter()
        .map(|r| if lowercase { r.to_ascii_lowercase() } else { r })
        .map(|r| if keep_zeros { r } else { strip_zeros_seg(&r) })
        .collect::<Vec<_>>()
        .join(sep)
}

/// Well-formedness of any output for separator `sep` (one non-alphanumeric character, ASCII or not).
pub fn well_formed(out: &str, sep: char, lowercase: bool, keep_zeros: bool) -> Result<(), String> {
    if out.is_empty() {
        return Ok(());
    }
    for seg in out.split(sep) {
        if seg.is_empty() {
            return Err("leading, trailing or doubled separator".into());
        }
        if let Some(c) = seg.chars().find(|c| !c.is_ascii_alphanumeric()) {
            return Err(format!("character {c:?} is not an ASCII letter/digit or the separator"));
        }
        if lowercase && seg.bytes().any(|b| b.is_ascii_uppercase()) {
            return Err("upper-case letter although lower-casing was asked".into());
        }
        if !keep_zeros && seg.len() > 1 && seg.starts_with('0') && seg.bytes().all(|b| b.is_ascii_digit()) {
            return Err(format!("all-digit segment {seg:?} has a leading zero"));
        }
    }
    Ok(())
}

/// Acceptable bounded outputs: fixup(F[..k]) for k ≤ m, F = unbounded model output and
/// fixup = trim separators, then (unless zeros are kept) strip leading zeros of all-digit
/// segments.  Any reasonable truncation policy is in this set; a corrupting one is not.
pub fn bounded_ok(out: &str, input: &str, sep: char, lowercase: bool, keep_zeros: bool, m: usize) -> bool {
    let f = model(input, &sep.to_string(), lowercase, keep_zeros);
    // the separator may be a multi-byte character: cut by characters
    let idx: Vec<usize> = f.char_indices().map(|(i, _)| i).chain([f.len()]).collect();
    for k in 0..=m.min(idx.len() - 1) {
        let cut = &f[..idx[k]];
        let t = cut.trim_matches(sep);
        let fixed = if keep_zeros {
            t.to_string()
        } else {
            t.split(sep).map(strip_zeros_seg).collect::<Vec<_>>().join(&sep.to_string())
        };
        if fixed == out {
            return true;
        }
    }
    false
}

/// integer sanitiser: digits of a purely numeric input without leading zeros, else "".
/// `trimmed` tells whether surrounding ASCII/Unicode whitespace is tolerated (zerv trims;
/// the statement says "purely numeric input", so only the untrimmed form is *required*).
pub fn uint_model(input: &str) -> String {
    if !input.is_empty() && input.bytes().all(|b| b.is_ascii_digit()) {
        strip_zeros_seg(input)
    } else {
        String::new()
    }
}

#[cfg(test)]
mod tests {
    use super::*;
    #[test]
    fn examples() {
        assert_eq!(model("feature/test-branch", ".", false, false), "feature.test.branch");
        assert_eq!(model("Build-ID-0051", ".", true, false), "build.id.51");
        assert_eq!(model("fé/ü", ".", false, false), "f");
        assert_eq!(model("///", ".", false, false), "");
        assert_eq!(model("a.00b", ".", false, false), "a.00b");
        assert!(bounded_ok("a.0", "a.00b", '.', false, false, 4));
        assert!(!bounded_ok("a.00", "a.00b", '.', false, false, 4));
        assert!(bounded_ok("feature_te", "Feature/Test-0051", '_', true, true, 10));
        assert!(well_formed("a.00", '.', false, false).is_err());
        assert_eq!(uint_model("0051"), "51");
        assert_eq!(uint_model("-1"), "");
    }
}
