//! PEP 440: hand-written backtracking matcher of the Appendix-B grammar (ASCII,
//! case-insensitive, same alternative preference as the reference regex), normaliser and
//! the ordering key of C11.  Numbers are digit strings.  No regex engine, no zerv.
use std::cmp::Ordering;

#[derive(Debug, Clone, PartialEq, Eq)]
pub struct Pep {
    pub epoch: String,                 // canonical digits ("0" when absent)
    pub release: Vec<String>,          // canonical digits
    pub pre: Option<(char, String)>,   // ('a'|'b'|'r', number) r = rc
    pub post: Option<String>,
    pub dev: Option<String>,
    pub local: Option<Vec<String>>,    // lower-cased; numeric parts canonical digits
}

pub fn canon_digits(d: &str) -> String {
    let t = d.trim_start_matches('0');
    if t.is_empty() { "0".to_string() } else { t.to_string() }
}

struct M<'a> {
    b: &'a [u8],
}
const PRE_LABELS: [(&str, char); 8] =
    [("a", 'a'), ("b", 'b'), ("c", 'r'), ("rc", 'r'), ("alpha", 'a'), ("beta", 'b'), ("pre", 'r'), ("preview", 'r')];
const POST_LABELS: [&str; 3] = ["post", "rev", "r"];

impl<'a> M<'a> {
    fn is_sep(&self, i: usize) -> bool {
        i < self.b.len() && matches!(self.b[i], b'-' | b'_' | b'.')
    }
    fn lit(&self, i: usize, w: &str) -> bool {
        let w = w.as_bytes();
        i + w.len() <= self.b.len() && self.b[i..i + w.len()].eq_ignore_ascii_case(w)
    }
    fn digit_run(&self, i: usize) -> usize {
        let mut j = i;
        while j < self.b.len() && self.b[j].is_ascii_digit() {
            j += 1;
        }
        j - i
    }
    /// `[-_.]?` greedy: positions to continue from, in preference order
    fn opt_sep(&self, i: usize) -> Vec<usize> {
        if self.is_sep(i) { vec![i + 1, i] } else { vec![i] }
    }
    /// `([0-9]+)?` greedy with backtracking: (end, Some(digits)|None)
    fn opt_num(&self, i: usize) -> Vec<(usize, Option<String>)> {
        let n = self.digit_run(i);
        let mut v = Vec::new();
        for k in (1..=n).rev() {
            v.push((i + k, Some(String::from_utf8(self.b[i..i + k].to_vec()).unwrap())));
        }
        v.push((i, None));
        v
    }
    fn s(&self, i: usize, j: usize) -> String {
        String::from_utf8(self.b[i..j].to_vec()).unwrap()
    }

    /// local + end of string
    fn tail(&self, i: usize) -> Option<Option<Vec<String>>> {
        if i == self.b.len() {
            return Some(None);
        }
        if self.b[i] != b'+' {
            return None;
        }
        let rest = &self.b[i + 1..];
        if rest.is_empty() {
            return None;
        }
        let mut segs = Vec::new();
        let mut cur = String::new();
        for &c in rest {
            if c.is_ascii_alphanumeric() {
                cur.push(c as char);
            } else if matches!(c, b'-' | b'_' | b'.') {
                if cur.is_empty() {
                    return None;
                }
                segs.push(std::mem::take(&mut cur));
            } else {
                return None;
            }
        }
        if cur.is_empty() {
            return None;
        }
        segs.push(cur);
        Some(Some(segs))
    }

    fn dev(&self, i: usize, acc: &mut Pep) -> bool {
        // with dev
        for p in self.opt_sep(i) {
            if self.lit(p, "dev") {
                for q in self.opt_sep(p + 3) {
                    for (e, n) in self.opt_num(q) {
                        if let Some(local) = self.tail(e) {
                            acc.dev = Some(n.unwrap_or_else(|| "0".into()));
                            acc.local = local;
                            return true;
                        }
                    }
                }
            }
        }
        // without dev
        if let Some(local) = self.tail(i) {
            acc.dev = None;
            acc.local = local;
            return true;
        }
        false
    }
    fn post(&self, i: usize, acc: &mut Pep) -> bool {
        // alternative 1: -N
        if i < self.b.len() && self.b[i] == b'-' {
            let n = self.digit_run(i + 1);
            for k in (1..=n).rev() {
                acc.post = Some(self.s(i + 1, i + 1 + k));
                if self.dev(i + 1 + k, acc) {
                    return true;
                }
            }
        }
        // alternative 2: [-_.]? (post|rev|r) [-_.]? N?
        for p in self.opt_sep(i) {
            for l in POST_LABELS {
                if self.lit(p, l) {
                    for q in self.opt_sep(p + l.len()) {
                        for (e, n) in self.opt_num(q) {
                            acc.post = Some(n.unwrap_or_else(|| "0".into()));
                            if self.dev(e, acc) {
                                return true;
                            }
                        }
                    }
                }
            }
        }
        acc.post = None;
        self.dev(i, acc)
    }
    fn pre(&self, i: usize, acc: &mut Pep) -> bool {
        for p in self.opt_sep(i) {
            for (l, code) in PRE_LABELS {
                if self.lit(p, l) {
                    for q in self.opt_sep(p + l.len()) {
                        for (e, n) in self.opt_num(q) {
                            acc.pre = Some((code, n.unwrap_or_else(|| "0".into())));
                            if self.post(e, acc) {
                                return true;
                            }
                        }
                    }
                }
            }
        }
        acc.pre = None;
        self.post(i, acc)
    }
    /// release = digits(.digits)* — all ways, greedy first
    fn release(&self, i: usize, rel: &mut Vec<String>, acc: &mut Pep) -> bool {
        let n = self.digit_run(i);
        for k in (1..=n).rev() {
            rel.push(self.s(i, i + k));
            let e = i + k;
            // greedy: try to extend with ".digits"
            if e < self.b.len() && self.b[e] == b'.' && self.release(e + 1, rel, acc) {
                return true;
            }
            acc.release = rel.clone();
            if self.pre(e, acc) {
                return true;
            }
            rel.pop();
        }
        false
    }
    fn top(&self, acc: &mut Pep) -> bool {
        let starts: Vec<usize> = if self.lit(0, "v") { vec![1, 0] } else { vec![0] };
        for st in starts {
            // epoch?
            let n = self.digit_run(st);
            for k in (1..=n).rev() {
                if st + k < self.b.len() && self.b[st + k] == b'!' {
                    acc.epoch = self.s(st, st + k);
                    let mut rel = Vec::new();
                    if self.release(st + k + 1, &mut rel, acc) {
                        return true;
                    }
                }
            }
            acc.epoch = "0".into();
            let mut rel = Vec::new();
            if self.release(st, &mut rel, acc) {
                return true;
            }
        }
        false
    }
}

/// Parse (no surrounding whitespace tolerated) and normalise.
pub fn parse(s: &str) -> Option<Pep> {
    if !s.is_ascii() {
        return None;
    }
    let m = M { b: s.as_bytes() };
    let mut acc = Pep { epoch: "0".into(), release: vec![], pre: None, post: None, dev: None, local: None };
    if !m.top(&mut acc) {
        return None;
    }
    acc.epoch = canon_digits(&acc.epoch);
    acc.release = acc.release.iter().map(|d| canon_digits(d)).collect();
    acc.pre = acc.pre.map(|(c, n)| (c, canon_digits(&n)));
    acc.post = acc.post.map(|n| canon_digits(&n));
    acc.dev = acc.dev.map(|n| canon_digits(&n));
    acc.local = acc.local.map(|v| {
        v.into_iter()
            .map(|p| if p.bytes().all(|b| b.is_ascii_digit()) { canon_digits(&p) } else { p.to_ascii_lowercase() })
            .collect()
    });
    Some(acc)
}

pub fn normal_form(p: &Pep) -> String {
    let mut o = String::new();
    if p.epoch != "0" {
        o.push_str(&p.epoch);
        o.push('!');
    }
    o.push_str(&p.release.join("."));
    if let Some((c, n)) = &p.pre {
        o.push_str(match c {
            'a' => "a",
            'b' => "b",
            _ => "rc",
        });
        o.push_str(n);
    }
    if let Some(n) = &p.post {
        o.push_str(".post");
        o.push_str(n);
    }
    if let Some(n) = &p.dev {
        o.push_str(".dev");
        o.push_str(n);
    }
    if let Some(l) = &p.local {
        o.push('+');
        o.push_str(&l.join("."));
    }
    o
}

fn cmp_digits(a: &str, b: &str) -> Ordering {
    a.len().cmp(&b.len()).then_with(|| a.cmp(b))
}
pub fn fits_u32(d: &str) -> bool {
    cmp_digits(d, "4294967295") != Ordering::Greater
}
/// every number of the version (not counting local) representable in u32
pub fn numbers_fit_u32(p: &Pep) -> bool {
    fits_u32(&p.epoch)
        && p.release.iter().all(|d| fits_u32(d))
        && p.pre.as_ref().is_none_or(|(_, n)| fits_u32(n))
        && p.post.as_ref().is_none_or(|n| fits_u32(n))
        && p.dev.as_ref().is_none_or(|n| fits_u32(n))
}
pub fn local_numbers_fit_u32(p: &Pep) -> bool {
    p.local.iter().flatten().all(|s| !s.bytes().all(|b| b.is_ascii_digit()) || fits_u32(s))
}

fn is_num(s: &str) -> bool {
    s.bytes().all(|b| b.is_ascii_digit())
}
fn cmp_local_seg(a: &str, b: &str) -> Ordering {
    match (is_num(a), is_num(b)) {
        (true, true) => cmp_digits(a, b),
        (true, false) => Ordering::Less,
        (false, true) => Ordering::Greater,
        (false, false) => a.cmp(b),
    }
}

/// The order stated in C11: lexicographic on epoch, release padded with zeros, pre-release
/// phase (a < b < rc < none) and number, post (none lowest), dev (none highest), local
/// (none lowest; numeric by value and below alphabetic; shorter prefix lower).
pub fn cmp(a: &Pep, b: &Pep) -> Ordering {
    let rel = || {
        let n = a.release.len().max(b.release.len());
        for i in 0..n {
            let x = a.release.get(i).map(|s| s.as_str()).unwrap_or("0");
            let y = b.release.get(i).map(|s| s.as_str()).unwrap_or("0");
            let o = cmp_digits(x, y);
            if o != Ordering::Equal {
                return o;
            }
        }
        Ordering::Equal
    };
    let phase = |p: &Option<(char, String)>| match p {
        Some(('a', _)) => 0,
        Some(('b', _)) => 1,
        Some(_) => 2,
        None => 3,
    };
    cmp_digits(&a.epoch, &b.epoch)
        .then_with(rel)
        .then_with(|| phase(&a.pre).cmp(&phase(&b.pre)))
        .then_with(|| match (&a.pre, &b.pre) {
            (Some((_, x)), Some((_, y))) => cmp_digits(x, y),
            _ => Ordering::Equal,
        })
        .then_with(|| match (&a.post, &b.post) {
            (None, None) => Ordering::Equal,
            (None, Some(_)) => Ordering::Less,
            (Some(_), None) => Ordering::Greater,
            (Some(x), Some(y)) => cmp_digits(x, y),
        })
        .then_with(|| match (&a.dev, &b.dev) {
            (None, None) => Ordering::Equal,
            (None, Some(_)) => Ordering::Greater,
            (Some(_), None) => Ordering::Less,
            (Some(x), Some(y)) => cmp_digits(x, y),
        })
        .then_with(|| match (&a.local, &b.local) {
            (None, None) => Ordering::Equal,
            (None, Some(_)) => Ordering::Less,
            (Some(_), None) => Ordering::Greater,
            (Some(x), Some(y)) => {
                for (i, j) in x.iter().zip(y.iter()) {
                    let o = cmp_local_seg(i, j);
                    if o != Ordering::Equal {
                        return o;
                    }
                }
                x.len().cmp(&y.len())
            }
        })
}

#[cfg(test)]
mod tests {
    use super::*;
    #[test]
    fn examples() {
        let cases = [
            ("1.0", "1.0"), ("v1.0", "1.0"), ("V1.0", "1.0"), ("1.0.0-alpha.1", "1.0.0a1"), ("1.0ALPHA", "1.0a0"), ("1.0c2", "1.0rc2"),
            ("1.0-pre", "1.0rc0"), ("1.0preview3", "1.0rc3"), ("1.0-1", "1.0.post1"), ("1.0.post", "1.0.post0"), ("1.0-r4", "1.0.post4"),
            ("1.0rev2", "1.0.post2"), ("1.0dev", "1.0.dev0"), ("1.0_dev_3", "1.0.dev3"), ("0!1.0", "1.0"), ("00!1.0", "1.0"), ("2!01.002", "2!1.2"),
            ("1.0+ABC-00.1_x", "1.0+abc.0.1.x"), ("1.0a-1", "1.0a1"), ("1.0a1-1", "1.0a1.post1"), ("1.0a1.post2.dev3+l", "1.0a1.post2.dev3+l"),
            ("1", "1"), ("1.0.0.0.0", "1.0.0.0.0"), ("1.0rc", "1.0rc0"), ("1.0r", "1.0.post0"), ("1.0-1dev", "1.0.post1.dev0"),
            ("1.0post1", "1.0.post1"), ("1.0.a1", "1.0a1"), ("1.0a.1", "1.0a1"), ("1.0-dev-1", "1.0.dev1"),
        ];
        for (i, n) in cases {
            let p = parse(i).unwrap_or_else(|| panic!("{i} should parse"));
            assert_eq!(normal_form(&p), n, "{i}");
        }
        for bad in ["", "v", "1.", ".1", "1..0", "1.0-", "1.0+", "1.0+a..b", "1.0+-a", "1.0a1a2", "1.0.post1.post2", "1.0x", " 1.0", "1.0 ", "1.0\n",
            "1!", "!1", "1.0.dev1.post1", "1.0+a+b", "1.0--1", "1.0-1-1", "1.0.poſt1", "1.0+ſ", "vv1.0", "1.0deva", "1_0", "1.0.-a1"] {
            assert!(parse(bad).is_none(), "{bad:?} should be rejected");
        }
        let chain = ["1.0a1", "1.0a2", "1.0b1", "1.0rc1", "1.0.dev1", "1.0", "1.0+a", "1.0+a.1", "1.0+1", "1.0.post1.dev1", "1.0.post1", "1.1", "1!0.1"];
        // per C11 key: numeric local parts below alphabetic: "1.0+1" < "1.0+a"
        let _ = chain;
        let lt = |a: &str, b: &str| assert_eq!(cmp(&parse(a).unwrap(), &parse(b).unwrap()), Ordering::Less, "{a} < {b}");
        lt("1.0a1", "1.0a2"); lt("1.0a2", "1.0b1"); lt("1.0b1", "1.0rc1"); lt("1.0rc1", "1.0.dev1"); lt("1.0.dev1", "1.0");
        lt("1.0", "1.0+1"); lt("1.0+1", "1.0+a"); lt("1.0+a", "1.0+a.1"); lt("1.0+a.1", "1.0.post1.dev1"); lt("1.0.post1.dev1", "1.0.post1");
        lt("1.0.post1", "1.1"); lt("1.1", "1!0.1"); lt("1.0a1.dev1", "1.0a1"); lt("1.0a1", "1.0a1.post1");
        assert_eq!(cmp(&parse("1.0").unwrap(), &parse("1.0.0").unwrap()), Ordering::Equal);
        assert_eq!(cmp(&parse("1.0+ABC").unwrap(), &parse("1.0+abc").unwrap()), Ordering::Equal);
    }
}
