//! Reference model of override / bump / reset semantics (C05), written from the property
//! statement; details the statement leaves open are taken from the CLI help and listed as
//! assumptions in props/c05.rs.
use crate::model::*;
use serde::{Deserialize, Serialize};

#[derive(Debug, Clone, Copy, Hash, PartialEq, Eq, Serialize, Deserialize)]
pub enum Section {
    Core,
    ExtraCore,
    Build,
}

/// one index-addressed operation as written on the command line
#[derive(Debug, Clone, Hash, PartialEq, Eq, Serialize, Deserialize)]
pub struct IdxOp {
    pub section: Section,
    pub index: String,         // "2", "-1", "~1", possibly garbage
    pub value: Option<String>, // None only for bumps (default 1)
    pub bump: bool,
}

#[derive(Debug, Clone, Hash, PartialEq, Eq, Serialize, Deserialize, Default)]
pub struct Ops {
    // by-name overrides (u32 on the command line)
    pub epoch: Option<u64>,
    pub major: Option<u64>,
    pub minor: Option<u64>,
    pub patch: Option<u64>,
    pub pre_label: Option<u8>,
    pub pre_num: Option<u64>,
    pub post: Option<u64>,
    pub dev: Option<u64>,
    // by-name bumps: Some(None) = flag without value (amount 1)
    pub bump_epoch: Option<Option<u64>>,
    pub bump_major: Option<Option<u64>>,
    pub bump_minor: Option<Option<u64>>,
    pub bump_patch: Option<Option<u64>>,
    pub bump_pre_label: Option<u8>,
    pub bump_pre_num: Option<Option<u64>>,
    pub bump_post: Option<Option<u64>>,
    pub bump_dev: Option<Option<u64>>,
    pub idx: Vec<IdxOp>,
}

#[derive(Debug, Clone, PartialEq, Eq)]
pub enum Outcome {
    Ok { z: MZerv, free_literals: Vec<(Section, usize)> },
    Reject(String),
}

#[derive(Clone, Copy, PartialEq, Eq, PartialOrd, Ord, Debug)]
enum Level {
    Epoch,
    Major,
    Minor,
    Patch,
    Core,
    PreLabel,
    PreNum,
    Post,
    Dev,
    ExtraCore,
    Build,
}
const LEVELS: [Level; 11] = [
    Level::Epoch, Level::Major, Level::Minor, Level::Patch, Level::Core, Level::PreLabel, Level::PreNum, Level::Post, Level::Dev, Level::ExtraCore, Level::Build,
];

fn add(a: u64, b: u64) -> Result<u64, String> {
    a.checked_add(b).ok_or_else(|| format!("{a} + {b} exceeds the integer range"))
}

/// reset every level strictly below `lv`
fn reset_below(v: &mut MVars, lv: Level) {
    for l in LEVELS {
        if l <= lv {
            continue;
        }
        match l {
            Level::Epoch => v.epoch = Some(0),
            Level::Major => v.major = Some(0),
            Level::Minor => v.minor = Some(0),
            Level::Patch => v.patch = Some(0),
            Level::PreLabel => v.pre_release = None,
            Level::PreNum => {
                if let Some((_, n)) = &mut v.pre_release {
                    *n = Some(0);
                }
            }
            Level::Post => v.post = None,
            Level::Dev => v.dev = None,
            Level::Core | Level::ExtraCore | Level::Build => {} // literals untouched
        }
    }
}

fn num_field(v: &mut MVars, lv: Level) -> &mut Option<u64> {
    match lv {
        Level::Epoch => &mut v.epoch,
        Level::Major => &mut v.major,
        Level::Minor => &mut v.minor,
        Level::Patch => &mut v.patch,
        Level::Post => &mut v.post,
        Level::Dev => &mut v.dev,
        _ => unreachable!(),
    }
}

fn apply_num(v: &mut MVars, lv: Level, ov: Option<u64>, bump: Option<u64>) -> Result<(), String> {
    if let Some(o) = ov {
        *num_field(v, lv) = Some(o);
    }
    if let Some(b) = bump {
        let cur = num_field(v, lv).unwrap_or(0);
        *num_field(v, lv) = Some(add(cur, b)?);
        reset_below(v, lv);
    }
    Ok(())
}

fn apply_pre_num(v: &mut MVars, ov: Option<u64>, bump: Option<u64>) -> Result<(), String> {
    if let Some(o) = ov {
        match &mut v.pre_release {
            Some((_, n)) => *n = Some(o),
            None => v.pre_release = Some((0, Some(o))), // assumption: creates alpha
        }
    }
    if let Some(b) = bump {
        match &mut v.pre_release {
            Some((_, n)) => *n = Some(add(n.unwrap_or(0), b)?),
            None => v.pre_release = Some((0, Some(b))), // assumption: creates alpha with the amount
        }
        reset_below(v, Level::PreNum);
    }
    Ok(())
}

fn parse_index(s: &str, len: usize) -> Result<usize, String> {
    let idx: i128 = if let Some(t) = s.strip_prefix('~') {
        let n: i128 = t.parse().map_err(|_| format!("bad tilde index {s:?}"))?;
        if n <= 0 {
            return Err(format!("tilde index {s:?} must be positive"));
        }
        -n
    } else {
        s.parse::<i128>().map_err(|_| format!("bad index {s:?}"))?
    };
    let pos = if idx >= 0 { idx } else { len as i128 + idx };
    if pos < 0 || pos >= len as i128 {
        return Err(format!("index {s} out of range for a section of {len}"));
    }
    Ok(pos as usize)
}

fn parse_amount(s: &str) -> Result<u64, String> {
    // a u32 on the command line
    if s.is_empty() || !s.bytes().all(|b| b.is_ascii_digit()) {
        return Err(format!("non-numeric value {s:?} for a numeric component"));
    }
    let n: u64 = s.parse().map_err(|_| format!("value {s:?} too large"))?;
    if n > u32::MAX as u64 {
        return Err(format!("value {s:?} too large"));
    }
    Ok(n)
}

fn apply_section(z: &mut MZerv, sec: Section, ops: &[IdxOp], free: &mut Vec<(Section, usize)>) -> Result<(), String> {
    let len = match sec {
        Section::Core => z.schema.core.len(),
        Section::ExtraCore => z.schema.extra_core.len(),
        Section::Build => z.schema.build.len(),
    };
    // resolve indices; duplicates within overrides or within bumps are invalid
    let mut specs: Vec<(usize, Option<String>, Option<String>)> = Vec::new();
    let (mut seen_o, mut seen_b) = (Vec::new(), Vec::new());
    for op in ops.iter().filter(|o| o.section == sec && !o.bump) {
        let i = parse_index(&op.index, len)?;
        let val = op.value.clone().ok_or("override needs a value")?;
        if seen_o.contains(&i) {
            return Err(format!("duplicate override index {i}"));
        }
        seen_o.push(i);
        specs.push((i, Some(val), None));
    }
    for op in ops.iter().filter(|o| o.section == sec && o.bump) {
        let i = parse_index(&op.index, len)?;
        let val = op.value.clone().unwrap_or_else(|| "1".into());
        if seen_b.contains(&i) {
            return Err(format!("duplicate bump index {i}"));
        }
        seen_b.push(i);
        if let Some(e) = specs.iter_mut().find(|s| s.0 == i) {
            e.2 = Some(val);
        } else {
            specs.push((i, None, Some(val)));
        }
    }
    specs.sort_by_key(|s| s.0);
    // documented: "Negative bump values not supported" — a value that reads as a negative
    // 32-bit number is refused for every component type
    for (_, ov, bump) in &specs {
        for v in [ov, bump].into_iter().flatten() {
            if v.parse::<i32>().is_ok_and(|n| n < 0) {
                return Err(format!("negative value {v}"));
            }
        }
    }
    for (i, ov, bump) in specs {
        let comp = match sec {
            Section::Core => z.schema.core[i].clone(),
            Section::ExtraCore => z.schema.extra_core[i].clone(),
            Section::Build => z.schema.build[i].clone(),
        };
        match comp {
            MComp::Var(var) => {
                let lv = match var {
                    MVar::Epoch => Some(Level::Epoch),
                    MVar::Major => Some(Level::Major),
                    MVar::Minor => Some(Level::Minor),
                    MVar::Patch => Some(Level::Patch),
                    MVar::Post => Some(Level::Post),
                    MVar::Dev => Some(Level::Dev),
                    MVar::PreRelease => Some(Level::PreNum),
                    _ => None,
                };
                let Some(lv) = lv else { return Err(format!("{var:?} cannot be overridden or bumped through an index")) };
                let o = ov.as_deref().map(parse_amount).transpose()?;
                let b = bump.as_deref().map(parse_amount).transpose()?;
                if lv == Level::PreNum { apply_pre_num(&mut z.vars, o, b)? } else { apply_num(&mut z.vars, lv, o, b)? }
            }
            MComp::UInt(cur) => {
                let o = ov.as_deref().map(parse_amount).transpose()?;
                let b = bump.as_deref().map(parse_amount).transpose()?;
                let base = o.unwrap_or(cur);
                let newv = match b {
                    Some(b) => add(base, b)?,
                    None => base,
                };
                let slot = match sec {
                    Section::Core => &mut z.schema.core[i],
                    Section::ExtraCore => &mut z.schema.extra_core[i],
                    Section::Build => &mut z.schema.build[i],
                };
                *slot = MComp::UInt(newv);
            }
            MComp::Str(_) => {
                let slot = match sec {
                    Section::Core => &mut z.schema.core[i],
                    Section::ExtraCore => &mut z.schema.extra_core[i],
                    Section::Build => &mut z.schema.build[i],
                };
                if let Some(o) = ov {
                    *slot = MComp::Str(o);
                }
                if bump.is_some() {
                    // "bumping" a text literal is not specified: any resulting text is accepted
                    free.push((sec, i));
                }
            }
        }
    }
    Ok(())
}

/// Apply `ops` to the state `z` (vars after the context overrides, schema in effect).
pub fn apply(start: &MZerv, ops: &Ops) -> Outcome {
    let mut z = start.clone();
    let mut free = Vec::new();
    if ops.pre_label.is_some() && ops.bump_pre_label.is_some() {
        return Outcome::Reject("--pre-release-label with --bump-pre-release-label".into());
    }
    let amt = |b: &Option<Option<u64>>| b.map(|x| x.unwrap_or(1));
    let r: Result<(), String> = (|| {
        for lv in LEVELS {
            match lv {
                Level::Epoch => apply_num(&mut z.vars, lv, ops.epoch, amt(&ops.bump_epoch))?,
                Level::Major => apply_num(&mut z.vars, lv, ops.major, amt(&ops.bump_major))?,
                Level::Minor => apply_num(&mut z.vars, lv, ops.minor, amt(&ops.bump_minor))?,
                Level::Patch => apply_num(&mut z.vars, lv, ops.patch, amt(&ops.bump_patch))?,
                Level::Core => apply_section(&mut z, Section::Core, &ops.idx, &mut free)?,
                Level::PreLabel => {
                    if let Some(l) = ops.pre_label {
                        // assumption: a label override keeps the existing number unless --pre-release-num is given
                        let existing = z.vars.pre_release.and_then(|p| p.1);
                        z.vars.pre_release = Some((l, ops.pre_num.or(existing).or(Some(0))));
                    }
                    if let Some(l) = ops.bump_pre_label {
                        reset_below(&mut z.vars, Level::PreLabel);
                        z.vars.pre_release = Some((l, Some(0)));
                    }
                }
                Level::PreNum => apply_pre_num(&mut z.vars, ops.pre_num, amt(&ops.bump_pre_num))?,
                Level::Post => apply_num(&mut z.vars, lv, ops.post, amt(&ops.bump_post))?,
                Level::Dev => apply_num(&mut z.vars, lv, ops.dev, amt(&ops.bump_dev))?,
                Level::ExtraCore => apply_section(&mut z, Section::ExtraCore, &ops.idx, &mut free)?,
                Level::Build => apply_section(&mut z, Section::Build, &ops.idx, &mut free)?,
            }
        }
        Ok(())
    })();
    match r {
        Err(e) => Outcome::Reject(e),
        Ok(()) => {
            // assumption: epoch 0 is emitted as absent
            if z.vars.epoch == Some(0) {
                z.vars.epoch = None;
            }
            Outcome::Ok { z, free_literals: free }
        }
    }
}

/// fixed (non-smart) preset schemas, written from the documented examples in `--schema` help
pub fn fixed_preset(name: &str) -> Option<MSchema> {
    use MComp::Var as V;
    let (fam, rest) = if let Some(r) = name.strip_prefix("standard-base") {
        ("standard", r)
    } else if let Some(r) = name.strip_prefix("calver-base") {
        ("calver", r)
    } else {
        return None;
    };
    let (tier, ctx) = match rest.strip_suffix("-context") {
        Some(t) => (t, true),
        None => (rest, false),
    };
    let core = if fam == "standard" {
        vec![V(MVar::Major), V(MVar::Minor), V(MVar::Patch)]
    } else {
        vec![V(MVar::Ts("YYYY".into())), V(MVar::Ts("MM".into())), V(MVar::Ts("DD".into())), V(MVar::Patch)]
    };
    let mut extra = vec![V(MVar::Epoch)];
    match tier {
        "" => {}
        "-prerelease" => extra.push(V(MVar::PreRelease)),
        "-prerelease-post" => extra.extend([V(MVar::PreRelease), V(MVar::Post)]),
        "-prerelease-post-dev" => extra.extend([V(MVar::PreRelease), V(MVar::Post), V(MVar::Dev)]),
        _ => return None,
    }
    let build = if ctx { vec![V(MVar::BumpedBranch), V(MVar::Distance), V(MVar::BumpedCommitHashShort)] } else { vec![] };
    Some(MSchema { core, extra_core: extra, build, precedence: vec![] })
}
