//! Reference renderer: (schema, vars) -> SemVer string / PEP 440 string by the placement
//! rules of C06, built on oracle::sanitize and oracle::calendar.  Calls nothing in zerv.
use super::{calendar, sanitize};
use crate::model::{LABELS, MComp, MSchema, MVar, MVars, MZerv};

fn custom_lookup(vars: &MVars, key: &str) -> Option<String> {
    let root = vars.custom();
    let mut cur = &root;
    for part in key.split('.') {
        cur = cur.get(part)?;
    }
    match cur {
        serde_json::Value::String(s) => Some(s.clone()),
        serde_json::Value::Number(n) => Some(n.to_string()),
        serde_json::Value::Bool(b) => Some(b.to_string()),
        _ => None,
    }
}

pub fn short_hash(h: &str) -> String {
    h.chars().take(8).collect()
}

/// raw (unsanitised) value of a component; None = unset (contributes nothing)
pub fn raw_value(c: &MComp, vars: &MVars) -> Option<String> {
    match c {
        MComp::Str(s) => Some(s.clone()),
        MComp::UInt(n) => Some(n.to_string()),
        MComp::Var(v) => match v {
            MVar::Major => vars.major.map(|n| n.to_string()),
            MVar::Minor => vars.minor.map(|n| n.to_string()),
            MVar::Patch => vars.patch.map(|n| n.to_string()),
            MVar::Epoch => vars.epoch.map(|n| n.to_string()),
            MVar::PreRelease => vars.pre_release.and_then(|(_, n)| n).map(|n| n.to_string()),
            MVar::Post => vars.post.map(|n| n.to_string()),
            MVar::Dev => vars.dev.map(|n| n.to_string()),
            MVar::Distance => vars.distance.map(|n| n.to_string()),
            MVar::Dirty => vars.dirty.map(|b| b.to_string()),
            MVar::BumpedBranch => vars.bumped_branch.clone(),
            MVar::BumpedCommitHash => vars.bumped_commit_hash.clone(),
            MVar::BumpedCommitHashShort => vars.bumped_commit_hash.as_deref().map(short_hash),
            MVar::BumpedTimestamp => vars.bumped_timestamp.map(|n| n.to_string()),
            MVar::LastBranch => vars.last_branch.clone(),
            MVar::LastCommitHash => vars.last_commit_hash.clone(),
            MVar::LastCommitHashShort => vars.last_commit_hash.as_deref().map(short_hash),
            MVar::LastTimestamp => vars.last_timestamp.map(|n| n.to_string()),
            MVar::Custom(k) => custom_lookup(vars, k),
            MVar::Ts(p) => {
                let ts = vars.bumped_timestamp.or(vars.last_timestamp)?;
                calendar::pattern_value(p, &calendar::civil(ts))
            }
        },
    }
}

/// integer-valued: surrounded by optional whitespace, only ASCII digits; canonical digits
pub fn as_integer(raw: &str) -> Option<String> {
    let t = raw.trim();
    if !t.is_empty() && t.bytes().all(|b| b.is_ascii_digit()) { Some(sanitize::strip_zeros_seg(t)) } else { None }
}
fn cmp_digits(a: &str, b: &str) -> std::cmp::Ordering {
    a.len().cmp(&b.len()).then_with(|| a.cmp(b))
}
pub fn fits_u64(d: &str) -> bool {
    cmp_digits(d, "18446744073709551615") != std::cmp::Ordering::Greater
}
pub fn fits_u32(d: &str) -> bool {
    cmp_digits(d, "4294967295") != std::cmp::Ordering::Greater
}
fn idents(raw: &str, lowercase: bool) -> Vec<String> {
    sanitize::model(raw, ".", lowercase, false).split('.').filter(|s| !s.is_empty()).map(String::from).collect()
}

pub fn semver(z: &MZerv) -> String {
    let (s, v) = (&z.schema, &z.vars);
    let mut nums: Vec<String> = Vec::new();
    let mut pre: Vec<String> = Vec::new();
    let mut build: Vec<String> = Vec::new();
    for c in &s.core {
        let Some(raw) = raw_value(c, v) else { continue };
        if let Some(n) = as_integer(&raw)
            && fits_u64(&n)
            && nums.len() < 3
        {
            nums.push(n);
        } else {
            pre.extend(idents(&raw, false));
        }
    }
    for c in &s.extra_core {
        match c {
            MComp::Var(MVar::Epoch) => {
                if let Some(n) = v.epoch {
                    pre.push("epoch".into());
                    pre.push(n.to_string());
                }
            }
            MComp::Var(MVar::PreRelease) => {
                if let Some((l, n)) = v.pre_release {
                    pre.push(LABELS[l as usize % 3].into());
                    if let Some(n) = n {
                        pre.push(n.to_string());
                    }
                }
            }
            MComp::Var(MVar::Post) => {
                if let Some(n) = v.post {
                    pre.push("post".into());
                    pre.push(n.to_string());
                }
            }
            MComp::Var(MVar::Dev) => {
                if let Some(n) = v.dev {
                    pre.push("dev".into());
                    pre.push(n.to_string());
                }
            }
            other => {
                if let Some(raw) = raw_value(other, v) {
                    pre.extend(idents(&raw, false));
                }
            }
        }
    }
    for c in &s.build {
        if let Some(raw) = raw_value(c, v) {
            build.extend(idents(&raw, false));
        }
    }
    while nums.len() < 3 {
        nums.push("0".into());
    }
    let mut o = nums.join(".");
    if !pre.is_empty() {
        o.push('-');
        o.push_str(&pre.join("."));
    }
    if !build.is_empty() {
        o.push('+');
        o.push_str(&build.join("."));
    }
    o
}

/// true when the PEP 440 rendering involves a number above u32 in a numeric slot — outside
/// the range PEP 440 rendering is specified for (DESIGN §6 C06/C07, known finding F12b)
pub fn pep440_out_of_range(z: &MZerv) -> bool {
    let (s, v) = (&z.schema, &z.vars);
    for c in &s.core {
        if let Some(raw) = raw_value(c, v)
            && let Some(n) = as_integer(&raw)
            && !fits_u32(&n)
        {
            return true;
        }
    }
    for c in &s.extra_core {
        let n = match c {
            MComp::Var(MVar::Epoch) => v.epoch,
            MComp::Var(MVar::PreRelease) => v.pre_release.and_then(|p| p.1),
            MComp::Var(MVar::Post) => v.post,
            MComp::Var(MVar::Dev) => v.dev,
            _ => None,
        };
        if n.is_some_and(|n| n > u32::MAX as u64) {
            return true;
        }
    }
    false
}

pub fn pep440(z: &MZerv) -> String {
    let (s, v) = (&z.schema, &z.vars);
    let mut release: Vec<String> = Vec::new();
    let mut local: Vec<String> = Vec::new();
    let mut epoch: Option<u64> = None;
    let mut pre: Option<(usize, u64)> = None;
    let mut post: Option<u64> = None;
    let mut dev: Option<u64> = None;
    for c in &s.core {
        let Some(raw) = raw_value(c, v) else { continue };
        if let Some(n) = as_integer(&raw)
            && fits_u32(&n)
        {
            release.push(n);
        } else {
            local.extend(idents(&raw, true));
        }
    }
    if release.is_empty() {
        release.push("0".into());
    }
    for c in &s.extra_core {
        match c {
            MComp::Var(MVar::Epoch) => {
                if let Some(n) = v.epoch {
                    epoch = Some(n);
                }
            }
            MComp::Var(MVar::PreRelease) => {
                if let Some((l, n)) = v.pre_release {
                    pre = Some((l as usize % 3, n.unwrap_or(0)));
                }
            }
            MComp::Var(MVar::Post) => {
                if let Some(n) = v.post {
                    post = Some(n);
                }
            }
            MComp::Var(MVar::Dev) => {
                if let Some(n) = v.dev {
                    dev = Some(n);
                }
            }
            other => {
                if let Some(raw) = raw_value(other, v) {
                    local.extend(idents(&raw, true));
                }
            }
        }
    }
    for c in &s.build {
        if let Some(raw) = raw_value(c, v) {
            local.extend(idents(&raw, true));
        }
    }
    let mut o = String::new();
    if let Some(e) = epoch
        && e > 0
    {
        o.push_str(&format!("{e}!"));
    }
    o.push_str(&release.join("."));
    if let Some((l, n)) = pre {
        o.push_str(["a", "b", "rc"][l]);
        o.push_str(&n.to_string());
    }
    if let Some(n) = post {
        o.push_str(&format!(".post{n}"));
    }
    if let Some(n) = dev {
        o.push_str(&format!(".dev{n}"));
    }
    if !local.is_empty() {
        o.push('+');
        o.push_str(&local.join("."));
    }
    o
}

/// schema placement rules (C12): Ok or the first broken rule
pub fn schema_valid(s: &MSchema) -> Result<(), String> {
    if s.core.is_empty() && s.extra_core.is_empty() && s.build.is_empty() {
        return Err("no component at all".into());
    }
    let order = |v: &MVar| match v {
        MVar::Major => 0,
        MVar::Minor => 1,
        _ => 2,
    };
    let mut last: Option<i32> = None;
    for c in &s.core {
        if let MComp::Var(v) = c {
            if v.is_secondary() {
                return Err(format!("{v:?} outside extra_core"));
            }
            if v.is_primary() {
                let o = order(v);
                if last.is_some_and(|l| o <= l) {
                    return Err("major/minor/patch duplicated or out of order".into());
                }
                last = Some(o);
            }
        }
    }
    let mut seen = Vec::new();
    for c in &s.extra_core {
        if let MComp::Var(v) = c {
            if v.is_primary() {
                return Err(format!("{v:?} outside core"));
            }
            if v.is_secondary() {
                if seen.contains(v) {
                    return Err(format!("duplicate {v:?}"));
                }
                seen.push(v.clone());
            }
        }
    }
    for c in &s.build {
        if let MComp::Var(v) = c
            && (v.is_primary() || v.is_secondary())
        {
            return Err(format!("{v:?} in build"));
        }
    }
    for c in s.all() {
        if let MComp::Var(MVar::Ts(p)) = c
            && !calendar::PATTERNS.contains(&p.as_str())
            && !p.starts_with('%')
        {
            return Err(format!("unknown timestamp pattern {p:?}"));
        }
    }
    Ok(())
}
