//! Boundary-biased numbers (DESIGN.md §3).
use proptest::prelude::*;

pub const EDGE_U64: &[u64] = &[
    0, 1, 2, 9, 10, 99, 100, 255, 65535, 65536, 2147483647, 2147483648, 4294967294, 4294967295,
    4294967296, 4294967297, 9223372036854775806, 9223372036854775807, 9223372036854775808,
    18446744073709551614, 18446744073709551615,
];

pub fn u64_biased() -> BoxedStrategy<u64> {
    prop_oneof![
        4 => 0u64..20,
        3 => super::pick(EDGE_U64),
        2 => (0u32..64, any::<u64>()).prop_map(|(s, x)| x >> s),
        1 => 0u64..100000,
    ]
    .boxed()
}
pub fn u32_biased() -> BoxedStrategy<u64> {
    prop_oneof![
        5 => 0u64..20,
        2 => super::pick(&[0u64, 1, 2, 9, 10, 99, 65535, 65536, 2147483647, 2147483648, 4294967294, 4294967295]),
        2 => (0u32..32, any::<u32>()).prop_map(|(s, x)| (x >> s) as u64),
    ]
    .boxed()
}
/// decimal digit strings, possibly beyond u64, no leading zeros
pub fn digits_any() -> BoxedStrategy<String> {
    prop_oneof![
        6 => u64_biased().prop_map(|n| n.to_string()),
        2 => "[1-9][0-9]{19,24}",
        1 => Just("18446744073709551616".to_string()),
    ]
    .boxed()
}
