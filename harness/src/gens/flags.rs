//! Command-line flags of `zerv version` / `zerv flow` (DESIGN.md §3 argv).
use super::{num, pick, text};
use proptest::prelude::*;
use serde::{Deserialize, Serialize};

#[derive(Debug, Clone, Hash, PartialEq, Eq, Serialize, Deserialize)]
pub struct Flag {
    pub name: String,
    pub value: Option<String>,
}
impl Flag {
    pub fn new(name: &str, value: Option<String>) -> Flag {
        Flag { name: name.to_string(), value }
    }
    pub fn v(name: &str, value: impl ToString) -> Flag {
        Flag { name: name.to_string(), value: Some(value.to_string()) }
    }
    pub fn b(name: &str) -> Flag {
        Flag { name: name.to_string(), value: None }
    }
}
/// `--name=value` spelling throughout (values may start with '-')
pub fn to_argv(flags: &[Flag]) -> Vec<String> {
    flags
        .iter()
        .map(|f| match &f.value {
            Some(v) => format!("--{}={}", f.name, v),
            None => format!("--{}", f.name),
        })
        .collect()
}

pub fn semver_tag() -> BoxedStrategy<String> {
    prop_oneof![
        4 => (num::u32_biased(), num::u32_biased(), num::u32_biased()).prop_map(|(a, b, c)| format!("{a}.{b}.{c}")),
        3 => (0u64..30, 0u64..30, 0u64..30, pick(&["alpha", "beta", "rc"]), num::u32_biased()).prop_map(|(a, b, c, l, n)| format!("{a}.{b}.{c}-{l}.{n}")),
        2 => (0u64..30, 0u64..30, 0u64..30, pick(&["alpha", "beta", "rc"]), 0u64..50, 0u64..50).prop_map(|(a, b, c, l, n, p)| format!("v{a}.{b}.{c}-{l}.{n}.post.{p}")),
        1 => (0u64..30, 0u64..30, 0u64..30, 1u64..5, 0u64..50, 0u64..50).prop_map(|(a, b, c, e, p, d)| format!("{a}.{b}.{c}-epoch.{e}.post.{p}.dev.{d}")),
        1 => pick(&["1.2.3+build.5", "0.0.0", "1.0.0-alpha", "1.0.0-x.y.z", "1.0.0-0.3.7", "1.0.0-rc.1+sha.abc", "2.0.0-post.3", "1.0.0-dev.1"]).prop_map(String::from),
        // a label without a number, alone or followed by other parts
        2 => (0u64..30, 0u64..30, 0u64..30, pick(&["alpha", "beta", "rc"]), pick(&["", ".post.2", ".dev.1", ".post", "+b.1"])).prop_map(|(a, b, c, l, rest)| format!("{a}.{b}.{c}-{l}{rest}")),
    ]
    .boxed()
}
pub fn pep440_tag() -> BoxedStrategy<String> {
    (super::pep::pepv(4), super::pep::spelling()).prop_map(|(p, s)| super::pep::spell(&p, &s, false)).boxed()
}

/// VCS-level overrides
pub fn vcs_flags() -> BoxedStrategy<Vec<Flag>> {
    (
        proptest::option::weighted(0.7, prop_oneof![4 => semver_tag().prop_map(|t| (t, "semver")), 1 => pep440_tag().prop_map(|t| (t, "pep440"))]),
        proptest::option::weighted(0.5, num::u32_biased()),
        0u8..5,
        proptest::option::weighted(0.6, text::nasty()),
        proptest::option::weighted(0.5, super::zervgen::hash_text()),
        proptest::option::weighted(0.5, super::zervgen::timestamp()),
    )
        .prop_map(|(tag, dist, dirt, branch, hash, ts)| {
            let mut f = Vec::new();
            if let Some((t, fmt)) = tag {
                f.push(Flag::v("tag-version", t));
                f.push(Flag::v("input-format", fmt));
            }
            match dirt {
                1 => f.push(Flag::b("dirty")),
                2 => f.push(Flag::b("no-dirty")),
                3 => f.push(Flag::b("clean")),
                _ => {}
            }
            if let Some(d) = dist
                && dirt != 3
            {
                f.push(Flag::v("distance", d));
            }
            if let Some(b) = branch {
                f.push(Flag::v("bumped-branch", b));
            }
            if let Some(h) = hash {
                f.push(Flag::v("bumped-commit-hash", h));
            }
            if let Some(t) = ts {
                f.push(Flag::v("bumped-timestamp", t));
            }
            f
        })
        .boxed()
}

pub const NUM_OVERRIDES: [&str; 7] = ["epoch", "major", "minor", "patch", "pre-release-num", "post", "dev"];
pub const NUM_BUMPS: [&str; 7] = ["bump-epoch", "bump-major", "bump-minor", "bump-patch", "bump-pre-release-num", "bump-post", "bump-dev"];

/// field overrides and bumps with valid values
pub fn field_flags() -> BoxedStrategy<Vec<Flag>> {
    (
        proptest::collection::vec(proptest::option::weighted(0.2, num::u32_biased()), 7),
        proptest::collection::vec(proptest::option::weighted(0.2, proptest::option::weighted(0.6, num::u32_biased())), 7),
        proptest::option::weighted(0.2, (pick(&["alpha", "beta", "rc"]), any::<bool>())),
    )
        .prop_map(|(ovs, bumps, label)| {
            let mut f = Vec::new();
            for (n, v) in NUM_OVERRIDES.iter().zip(ovs) {
                if let Some(v) = v {
                    f.push(Flag::v(n, v));
                }
            }
            for (n, v) in NUM_BUMPS.iter().zip(bumps) {
                if let Some(v) = v {
                    f.push(Flag::new(n, v.map(|x| x.to_string())));
                }
            }
            if let Some((l, bump)) = label {
                f.push(Flag::v(if bump { "bump-pre-release-label" } else { "pre-release-label" }, l));
            }
            f
        })
        .boxed()
}

/// index-addressed schema operations (may be out of range / on the wrong component type)
pub fn index_flags() -> BoxedStrategy<Vec<Flag>> {
    let idx = prop_oneof![4 => (0i64..4).prop_map(|i| i.to_string()), 1 => (1i64..4).prop_map(|i| format!("-{i}")), 1 => (1i64..4).prop_map(|i| format!("~{i}"))];
    let val = prop_oneof![3 => num::u32_biased().prop_map(|n| n.to_string()), 1 => text::tame()];
    proptest::collection::vec(
        (pick(&["core", "extra-core", "build", "bump-core", "bump-extra-core", "bump-build"]), idx, proptest::option::weighted(0.7, val)),
        0..3,
    )
    .prop_map(|v| {
        v.into_iter()
            .map(|(n, i, val)| {
                let bump = n.starts_with("bump-");
                match (bump, val) {
                    (true, None) => Flag::v(n, i),
                    (_, Some(v)) if !v.is_empty() && !v.contains('=') => Flag::v(n, format!("{i}={v}")),
                    _ => Flag::v(n, format!("{i}=1")),
                }
            })
            .collect()
    })
    .boxed()
}

pub fn shuffled(flags: BoxedStrategy<Vec<Flag>>) -> BoxedStrategy<Vec<Flag>> {
    flags.prop_shuffle().boxed()
}

/// a random, mostly valid flag set for `zerv version`
pub fn version_flags() -> BoxedStrategy<Vec<Flag>> {
    (vcs_flags(), prop_oneof![2 => Just(vec![]), 3 => field_flags()], prop_oneof![4 => Just(vec![]), 1 => index_flags()], proptest::option::weighted(0.15, super::zervgen::custom_json()))
        .prop_map(|(mut a, b, c, custom)| {
            a.extend(b);
            a.extend(c);
            if let Some(cj) = custom {
                a.push(Flag::v("custom", if cj.is_empty() { "{}".to_string() } else { cj }));
            }
            a
        })
        .boxed()
}
