//! Generators of valid schemas, variable assignments and Zerv objects (DESIGN.md §3).
use super::{num, pick, text};
use crate::model::*;
use proptest::prelude::*;

pub const PRESETS: [&str; 22] = [
    "standard", "standard-no-context", "standard-base", "standard-base-prerelease", "standard-base-prerelease-post",
    "standard-base-prerelease-post-dev", "standard-base-context", "standard-base-prerelease-context",
    "standard-base-prerelease-post-context", "standard-base-prerelease-post-dev-context", "standard-context",
    "calver", "calver-no-context", "calver-base", "calver-base-prerelease", "calver-base-prerelease-post",
    "calver-base-prerelease-post-dev", "calver-base-context", "calver-base-prerelease-context",
    "calver-base-prerelease-post-context", "calver-base-prerelease-post-dev-context", "calver-context",
];
pub const TS_PATTERNS: [&str; 16] = crate::oracle::calendar::PATTERNS;
pub const CUSTOM_KEYS: [&str; 8] = ["build_id", "env", "meta.author", "meta.n", "flag", "deep.a.b", "missing", "Ünï"];

/// literal text for str(): nasty text, integers in odd places, things that sanitise to nothing
pub fn literal() -> BoxedStrategy<String> {
    prop_oneof![
        4 => text::nasty(),
        2 => pick(&["12", "007", "0", " 5 ", "a/b.c", "///", "", "x", "rc", "post", "dev", "epoch", "alpha", "1.2", "-", "v1", "4294967295", "4294967296"]).prop_map(String::from),
        1 => num::u64_biased().prop_map(|n| n.to_string()),
    ]
    .boxed()
}

pub fn context_var() -> BoxedStrategy<MVar> {
    prop_oneof![
        6 => pick(&[
            MVar::Distance, MVar::Dirty, MVar::BumpedBranch, MVar::BumpedCommitHash, MVar::BumpedCommitHashShort, MVar::BumpedTimestamp,
            MVar::LastBranch, MVar::LastCommitHash, MVar::LastCommitHashShort, MVar::LastTimestamp,
        ]),
        2 => pick(&CUSTOM_KEYS).prop_map(|k| MVar::Custom(k.to_string())),
        2 => pick(&TS_PATTERNS).prop_map(|p| MVar::Ts(p.to_string())),
    ]
    .boxed()
}
pub fn filler() -> BoxedStrategy<MComp> {
    prop_oneof![
        3 => context_var().prop_map(MComp::Var),
        2 => literal().prop_map(MComp::Str),
        1 => num::u64_biased().prop_map(MComp::UInt),
    ]
    .boxed()
}

/// interleave `fixed` (in order) with fillers
fn interleave(fixed: Vec<MComp>, fillers: Vec<MComp>, slots: Vec<usize>) -> Vec<MComp> {
    let mut out = fixed;
    for (f, s) in fillers.into_iter().zip(slots) {
        let pos = s % (out.len() + 1);
        out.insert(pos, f);
    }
    out
}

/// arbitrary VALID schema: core = order-preserving sub-sequence of Major/Minor/Patch
/// interleaved with context/literal components; extra_core = sub-permutation of
/// Epoch/PreRelease/Post/Dev interleaved likewise; build = context/literal only; >= 1 component.
pub fn valid_schema() -> BoxedStrategy<MSchema> {
    let prim = proptest::collection::vec(any::<bool>(), 3);
    let sec = (proptest::collection::vec(any::<bool>(), 4), Just(vec![MVar::Epoch, MVar::PreRelease, MVar::Post, MVar::Dev]).prop_shuffle());
    (
        prim,
        sec,
        proptest::collection::vec((filler(), 0usize..8), 0..3),
        proptest::collection::vec((filler(), 0usize..8), 0..3),
        proptest::collection::vec(filler(), 0..4),
    )
        .prop_map(|(p, (smask, sorder), cf, ef, build)| {
            let prims: Vec<MComp> = [MVar::Major, MVar::Minor, MVar::Patch].into_iter().zip(p).filter(|(_, keep)| *keep).map(|(v, _)| MComp::Var(v)).collect();
            let secs: Vec<MComp> = sorder.into_iter().zip(smask).filter(|(_, keep)| *keep).map(|(v, _)| MComp::Var(v)).collect();
            let (cfill, cslots): (Vec<_>, Vec<_>) = cf.into_iter().unzip();
            let (efill, eslots): (Vec<_>, Vec<_>) = ef.into_iter().unzip();
            let mut s = MSchema { core: interleave(prims, cfill, cslots), extra_core: interleave(secs, efill, eslots), build, precedence: vec![] };
            if s.core.is_empty() && s.extra_core.is_empty() && s.build.is_empty() {
                s.core.push(MComp::Var(MVar::Major));
            }
            s
        })
        .boxed()
}

/// custom `precedence_order` lists: full permutations, partial lists (a section listed without
/// the fields of its variables and vice versa), lists with repeats; empty = default
pub fn precedence() -> BoxedStrategy<Vec<u8>> {
    prop_oneof![
        2 => Just((0u8..11).collect::<Vec<u8>>()).prop_shuffle(),
        3 => (Just((0u8..11).collect::<Vec<u8>>()).prop_shuffle(), 1usize..11).prop_map(|(v, n)| v.into_iter().take(n).collect()),
        2 => proptest::collection::vec(any::<bool>(), 11).prop_map(|m| (0u8..11).zip(m).filter(|x| x.1).map(|x| x.0).collect::<Vec<u8>>()).prop_filter("non-empty", |v: &Vec<u8>| !v.is_empty()),
        1 => proptest::collection::vec(0u8..11, 1..14),
    ]
    .boxed()
}
/// valid schema, with a custom precedence order in about a third of the cases
pub fn valid_schema_p() -> BoxedStrategy<MSchema> {
    (valid_schema(), proptest::option::weighted(0.35, precedence())).prop_map(|(mut s, p)| { if let Some(p) = p { s.precedence = p; } s }).boxed()
}
pub fn mzerv_p(wide: bool) -> BoxedStrategy<MZerv> {
    (valid_schema_p(), vars(wide)).prop_map(|(schema, vars)| MZerv { schema, vars }).boxed()
}

pub fn hash_text() -> BoxedStrategy<String> {
    prop_oneof![
        4 => "g?[0-9a-f]{7,40}",
        2 => text::nasty(),
        1 => pick(&["aééééééé", "ééééé", "g1234567", "1234567", "0000000", "0012345678", "ABCDEF12", "aéb"]).prop_map(String::from),
    ]
    .boxed()
}
fn json_leaf() -> BoxedStrategy<serde_json::Value> {
    prop_oneof![
        3 => text::nasty().prop_map(serde_json::Value::String),
        2 => num::u64_biased().prop_map(|n| serde_json::json!(n)),
        1 => any::<bool>().prop_map(|b| serde_json::json!(b)),
        1 => Just(serde_json::Value::Null),
        1 => (-1000i64..1000).prop_map(|n| serde_json::json!(n)),
        1 => pick(&["1.5", "0.001", "-2.25", "1e30"]).prop_map(|s| serde_json::from_str(s).unwrap()),
        1 => proptest::collection::vec(0u8..9, 0..3).prop_map(|v| serde_json::json!(v)),
    ]
    .boxed()
}
/// custom JSON object using the keys schemas refer to, plus unrelated keys
pub fn custom_json() -> BoxedStrategy<String> {
    prop_oneof![
        2 => Just(String::new()),
        5 => (proptest::collection::vec(json_leaf(), 7), proptest::collection::vec(any::<bool>(), 7), proptest::option::of(text::nasty())).prop_map(|(leaves, mask, extra_key)| {
            let mut root = serde_json::Map::new();
            let mut put = |path: &str, v: serde_json::Value| {
                let parts: Vec<&str> = path.split('.').collect();
                let mut cur = &mut root;
                for (i, p) in parts.iter().enumerate() {
                    if i + 1 == parts.len() {
                        cur.insert(p.to_string(), v.clone());
                    } else {
                        let e = cur.entry(p.to_string()).or_insert_with(|| serde_json::json!({}));
                        if !e.is_object() {
                            *e = serde_json::json!({});
                        }
                        cur = e.as_object_mut().unwrap();
                    }
                }
            };
            let keys = ["build_id", "env", "meta.author", "meta.n", "flag", "deep.a.b", "Ünï"];
            for ((k, v), m) in keys.iter().zip(leaves).zip(mask) {
                if m {
                    put(k, v);
                }
            }
            if let Some(k) = extra_key {
                // now and then a known key holds the "wrong" type: an object where other documents
                // have a scalar, a scalar where they have an object
                match k.len() % 5 {
                    0 => { root.insert("build_id".into(), serde_json::json!({"k": 1, "nested": {"x": [1]}})); }
                    1 => { root.insert("meta".into(), serde_json::json!(5)); }
                    2 => { root.insert("env".into(), serde_json::json!({"name": "prod"})); }
                    _ => {}
                }
                root.insert(k, serde_json::json!("x"));
            }
            if root.is_empty() { String::new() } else { serde_json::Value::Object(root).to_string() }
        }),
    ]
    .boxed()
}

pub const MAX_TS: u64 = 253402300799; // 9999-12-31T23:59:59Z
pub fn timestamp() -> BoxedStrategy<u64> {
    prop_oneof![
        3 => 0u64..7258118400,
        2 => (0u64..84006, pick(&[0u64, 1, 86399, 43200])).prop_map(|(d, s)| d * 86400 + s),
        1 => pick(&[0u64, 1, 951782400, 1710511845, 4107542399, 4294967295, 4294967296, MAX_TS]),
    ]
    .boxed()
}

/// numbers: `wide` = full u64 range, else within u32 (what PEP 440 rendering covers)
pub fn number(wide: bool) -> BoxedStrategy<u64> {
    if wide { num::u64_biased() } else { num::u32_biased() }
}

pub fn vars(wide: bool) -> BoxedStrategy<MVars> {
    let o = |s: BoxedStrategy<u64>| proptest::option::weighted(0.7, s);
    (
        (o(number(wide)), o(number(wide)), o(number(wide)), proptest::option::weighted(0.3, number(wide).prop_map(|n| n.max(1)))),
        (
            proptest::option::weighted(0.5, (0u8..3, proptest::option::weighted(0.8, number(wide)))),
            proptest::option::weighted(0.4, number(wide)),
            proptest::option::weighted(0.4, number(wide)),
            proptest::option::weighted(0.6, number(wide)),
            proptest::option::weighted(0.7, any::<bool>()),
        ),
        (
            proptest::option::weighted(0.8, text::nasty()),
            proptest::option::weighted(0.7, hash_text()),
            proptest::option::weighted(0.7, timestamp()),
            proptest::option::weighted(0.3, text::nasty()),
            proptest::option::weighted(0.5, hash_text()),
            proptest::option::weighted(0.5, timestamp()),
            proptest::option::weighted(0.5, pick(&["1.2.3", "v1.0.0", "1.0.0-alpha.1", "2!1.0a1", "not-a-version"]).prop_map(String::from)),
        ),
        custom_json(),
    )
        .prop_map(|((major, minor, patch, epoch), (pre_release, post, dev, distance, dirty), (bb, bh, bt, lb, lh, lt, ltv), custom_json)| MVars {
            major, minor, patch, epoch, pre_release, post, dev, distance, dirty,
            bumped_branch: bb, bumped_commit_hash: bh, bumped_timestamp: bt,
            last_branch: lb, last_commit_hash: lh, last_timestamp: lt, last_tag_version: ltv, custom_json,
        })
        .boxed()
}

pub fn mzerv(wide: bool) -> BoxedStrategy<MZerv> {
    (valid_schema(), vars(wide)).prop_map(|(schema, vars)| MZerv { schema, vars }).boxed()
}
