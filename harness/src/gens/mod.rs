//! Shared generators (DESIGN.md §3).
pub mod text;
pub mod zervgen;
pub mod argv;
pub mod flags;
pub mod num;
pub mod pep;
use proptest::prelude::*;

/// monotone index choice (shrinks towards the first element)
pub fn pick<T: Clone + std::fmt::Debug + 'static>(items: &'static [T]) -> impl Strategy<Value = T> {
    (0..items.len()).prop_map(move |i| items[i].clone())
}
pub fn pick_vec<T: Clone + std::fmt::Debug + 'static>(items: Vec<T>) -> impl Strategy<Value = T> {
    let n = items.len();
    (0..n).prop_map(move |i| items[i].clone())
}
