//! Adversarial argument vectors drawn from the real flag set of the four sub-commands
//! (DESIGN.md §3 argv / §6 C13).  The flag tables below are cross-checked against
//! `zerv <sub> --help` by the `flag-table` sub-check of C13.
use super::{num, pick, text, zervgen};
use proptest::prelude::*;

#[derive(Clone, Copy, Debug, PartialEq)]
pub enum Kind {
    Bool,
    Num,       // u32 / i64 style number (possibly a template)
    OptNum,    // flag usable with or without =value
    Text,
    Json,
    Label,
    Index,
    Enum(&'static [&'static str]),
    SchemaRon,
    Template,
    Rules,
    Dir,
}
pub const COMMON_IO: &[(&str, Kind)] = &[
    ("source", Kind::Enum(&["git", "stdin", "none"])),
    ("input-format", Kind::Enum(&["auto", "semver", "pep440"])),
    ("directory", Kind::Dir),
    ("output-format", Kind::Enum(&["semver", "pep440", "zerv"])),
    ("output-template", Kind::Template),
    ("output-prefix", Kind::Text),
];
pub const COMMON_OVERRIDES: &[(&str, Kind)] = &[
    ("tag-version", Kind::Text), ("distance", Kind::Num), ("dirty", Kind::Bool), ("no-dirty", Kind::Bool), ("clean", Kind::Bool),
    ("bumped-branch", Kind::Text), ("bumped-commit-hash", Kind::Text), ("bumped-timestamp", Kind::Num),
    ("major", Kind::Num), ("minor", Kind::Num), ("patch", Kind::Num), ("epoch", Kind::Num), ("post", Kind::Num),
];
pub const VERSION_ONLY: &[(&str, Kind)] = &[
    ("schema", Kind::Enum(&zervgen::PRESETS)), ("schema-ron", Kind::SchemaRon),
    ("dev", Kind::Num), ("pre-release-label", Kind::Label), ("pre-release-num", Kind::Num), ("custom", Kind::Json),
    ("core", Kind::Index), ("extra-core", Kind::Index), ("build", Kind::Index),
    ("bump-major", Kind::OptNum), ("bump-minor", Kind::OptNum), ("bump-patch", Kind::OptNum), ("bump-post", Kind::OptNum), ("bump-dev", Kind::OptNum),
    ("bump-pre-release-num", Kind::OptNum), ("bump-epoch", Kind::OptNum), ("bump-pre-release-label", Kind::Label),
    ("bump-core", Kind::Index), ("bump-extra-core", Kind::Index), ("bump-build", Kind::Index),
    ("bump-context", Kind::Bool), ("no-bump-context", Kind::Bool),
];
pub const FLOW_ONLY: &[(&str, Kind)] = &[
    ("schema", Kind::Enum(&zervgen::PRESETS)), ("schema-ron", Kind::SchemaRon),
    ("pre-release-label", Kind::Enum(&["alpha", "beta", "rc"])), ("pre-release-num", Kind::Num), ("post-mode", Kind::Enum(&["commit", "tag"])),
    ("branch-rules", Kind::Rules), ("hash-branch-len", Kind::Num),
];
pub const RENDER_FLAGS: &[(&str, Kind)] = &[
    ("input-format", Kind::Enum(&["auto", "semver", "pep440", "zerv"])),
    ("output-format", Kind::Enum(&["semver", "pep440", "zerv"])),
    ("output-template", Kind::Template),
    ("output-prefix", Kind::Text),
];
pub const CHECK_FLAGS: &[(&str, Kind)] = &[("format", Kind::Enum(&["semver", "pep440", "zerv", "auto"]))];

pub fn flags_of(sub: &str) -> Vec<(&'static str, Kind)> {
    match sub {
        "version" => COMMON_IO.iter().chain(COMMON_OVERRIDES).chain(VERSION_ONLY).copied().collect(),
        "flow" => COMMON_IO.iter().chain(COMMON_OVERRIDES).chain(FLOW_ONLY).copied().collect(),
        "render" => RENDER_FLAGS.to_vec(),
        _ => CHECK_FLAGS.to_vec(),
    }
}

pub const BAD_TEMPLATES: &[&str] = &[
    "{{", "}}", "{% if %}", "{{ unknown_var }}", "{{ major", "{% for x in custom %}{{ x }}{% endfor %}", "{{ 1 / 0 }}", "{{ major + \"a\" }}",
    "{{ prefix(value=bumped_branch, length=3) }}", "{{ prefix(value=\"éééé\", length=3) }}", "{{ prefix(value=\"aé\", length=2) }}", "{{ prefix(value=bumped_branch, length=0) }}",
    "{{ format_timestamp(value=1, format=\"%Q\") }}", "{{ format_timestamp(value=bumped_timestamp, format=\"%\") }}", "{{ format_timestamp(value=0, format=\"%-\") }}",
    "{{ format_timestamp(value=99999999999999999) }}", "{{ format_timestamp(value=-1) }}", "{{ format_timestamp(value=1, format=\"%Y%!\") }}",
    "{{ hash(value=bumped_branch, length=0) }}", "{{ hash(value=\"é\", length=99999999999) }}", "{{ hash_int(value=1, length=25) }}", "{{ hash_int(value=\"x\", length=30, allow_leading_zero=true) }}",
    "{{ sanitize(value=\"éééé\", max_length=3) }}", "{{ sanitize(value=bumped_branch, separator=\"\", max_length=1) }}", "{{ sanitize(value=\"a\", preset=\"nope\") }}", "{{ sanitize(value=\"a\", preset=\"uint\", lowercase=true) }}",
    "{{ sanitize(value=\"a-b\", separator=\"é\", max_length=2) }}", "{{ sanitize() }}", "{{ prefix_if(value=\"x\") }}", "{{ prefix_if(value=custom, prefix=\"+\") }}",
    "{{ semver_obj.docker }}", "{{ pep440_obj.base_part }}{{ pre_release.number }}", "{{ custom.a.b.c }}", "{{ bumped_branch | upper }}", "{% raw %}{{x}}{% endraw %}",
    "none", "null", "   ", "\n", "{{ dev }}", "{{ current_timestamp }}", "{{ semver }}\n{{ pep440 }}",
];
/// `{{ f(k=v, ...) }}` for every custom function with its own parameters, each present with
/// probability 0.6; values mostly of the parameter's type (sizes, signs, boundary numbers,
/// variables), now and then of another type, plus an unknown parameter — one call deep (F18)
pub fn fn_call_template() -> BoxedStrategy<String> {
    const NUMS: &[&str] = &["0", "1", "7", "20", "255", "65535", "65536", "4294967295", "4294967296", "99999999999", "9223372036854775807", "-1", "-9223372036854775808", "1.5", "1e9", "distance", "major", "bumped_timestamp"];
    const BOOLS: &[&str] = &["true", "false", "dirty"];
    const TEXTS: &[&str] = &["\"x\"", "\"éééé\"", "\"\"", "\"a.00b-c\"", "\"%Y\"", "\"%Q\"", "\"dotted\"", "\"uint\"", "\"semver_str\"", "\".\"", "\"é\"", "\"+\"", "bumped_branch", "bumped_commit_hash", "custom", "pre_release", "nope"];
    // (function, [(parameter, kind)]): kind 0 number, 1 bool, 2 text
    const FUNS: &[(&str, &[(&str, u8)])] = &[
        ("hash", &[("value", 2), ("length", 0)]),
        ("hash_int", &[("value", 2), ("length", 0), ("allow_leading_zero", 1)]),
        ("prefix", &[("value", 2), ("length", 0)]),
        ("prefix_if", &[("value", 2), ("prefix", 2)]),
        ("sanitize", &[("value", 2), ("preset", 2), ("separator", 2), ("lowercase", 1), ("keep_zeros", 1), ("max_length", 0)]),
        ("format_timestamp", &[("value", 0), ("format", 2)]),
    ];
    (0usize..FUNS.len(), proptest::collection::vec((prop::bool::weighted(0.6), 0u8..10, any::<prop::sample::Index>()), 6), prop::bool::weighted(0.1))
        .prop_map(|(fi, picks, unknown)| {
            let (f, params) = FUNS[fi];
            let mut args: Vec<String> = Vec::new();
            for ((name, kind), (present, off_type, idx)) in params.iter().zip(picks.iter()) {
                if !*present && !(*name == "value" && *off_type < 8) {
                    continue;
                }
                let pool: &[&str] = match (if *off_type == 0 { (kind + 1) % 3 } else { *kind }) as u8 {
                    0 => NUMS,
                    1 => BOOLS,
                    _ => TEXTS,
                };
                args.push(format!("{name}={}", pool[idx.index(pool.len())]));
            }
            if unknown {
                args.push("nope=1".into());
            }
            format!("{{{{ {f}({}) }}}}", args.join(", "))
        })
        .boxed()
}

pub const BAD_NUMS: &[&str] = &["-1", "4294967296", "18446744073709551616", "99999999999999999999999", "1e3", "0x10", " 5", "5 ", "+5", "", "abc", "1.5", "٣", "{{ major }}", "{{ distance }}", "{{ 1+1 }}", "{{", "none", "null", "-9223372036854775808", "9223372036854775807"];
pub const BAD_RON: &[&str] = &[
    
    "", "(", "()", "(core:[])", "(core:[], extra_core:[], build:[])", "(core:[var(Major)], extra_core:[], build:[var(Major)])", "(core:[var(Patch), var(Major)], extra_core:[], build:[])",
    "(core:[var(Epoch)], extra_core:[], build:[])", "(core:[], extra_core:[var(Post), var(Post)], build:[])", "(core:[var(ts(\"nope\"))], extra_core:[], build:[])",
    "(core:[var(ts(\"%Q\"))], extra_core:[], build:[])", "(core:[var(custom(\"\"))], extra_core:[], build:[])", "(core:[str(\"é\"), uint(18446744073709551615)], extra_core:[], build:[])",
    "(core:[uint(-1)], extra_core:[], build:[])", "(core:[uint(18446744073709551616)], extra_core:[], build:[])", "[1,2,3]", "\u{feff}(core:[var(Major)],extra_core:[],build:[])",
    "(core:[var(Major)], extra_core:[], build:[], precedence_order:[])", "(core:[var(Major),var(Minor),var(Patch)], extra_core:[var(Post)], build:[], precedence_order:[Core,ExtraCore,Build])",
    "(core:[var(Major),uint(3)], extra_core:[var(PreRelease),var(Dev)], build:[], precedence_order:[Dev,Core,Major])", "(core:[var(Major)], extra_core:[], build:[], precedence_order:[Major, Major])", "(core:[var(Nope)], extra_core:[], build:[])",
];
pub const BAD_RULES: &[&str] = &[
    "", "[", "[]", "[(pattern: \"*\", pre_release_label: alpha, post_mode: commit)]", "[(pattern: \"x\", pre_release_label: alpha, post_mode: commit)]",
    "[(pattern: \"x/*\", pre_release_label: rc, pre_release_num: 3, post_mode: tag)]", "[(pattern: \"é/*\", pre_release_label: rc, post_mode: tag)]", "[(pattern: \"/*\", pre_release_label: rc, post_mode: tag)]",
    "[(pattern: \"x\", pre_release_label: gamma, pre_release_num: 1, post_mode: tag)]", "[(pattern: \"x\", pre_release_label: rc, pre_release_num: 99999999999, post_mode: tag)]",
    "[(pattern: \"x\", pre_release_label: rc, pre_release_num: pre_release_num: 5, post_mode: tag)]", "[(pattern: \"*\", pre_release_label: alpha, post_mode: tag), (pattern: \"*\", pre_release_label: beta, post_mode: commit)]",
];

pub fn value_for(kind: Kind) -> BoxedStrategy<Option<String>> {
    let s = |v: BoxedStrategy<String>| v.prop_map(Some).boxed();
    match kind {
        Kind::Bool => prop_oneof![8 => Just(None), 1 => Just(Some("true".to_string())), 1 => Just(Some("x".to_string()))].boxed(),
        Kind::Num => s(prop_oneof![4 => num::u32_biased().prop_map(|n| n.to_string()), 2 => num::u64_biased().prop_map(|n| n.to_string()), 3 => pick(BAD_NUMS).prop_map(String::from), 1 => pick(BAD_TEMPLATES).prop_map(String::from), 1 => fn_call_template()].boxed()),
        Kind::OptNum => prop_oneof![2 => Just(None), 3 => num::u32_biased().prop_map(|n| Some(n.to_string())), 2 => pick(BAD_NUMS).prop_map(|s| Some(s.to_string())), 1 => pick(BAD_TEMPLATES).prop_map(|s| Some(s.to_string()))].boxed(),
        Kind::Text => s(prop_oneof![3 => text::nasty(), 2 => super::flags::semver_tag(), 1 => super::flags::pep440_tag(), 1 => zervgen::hash_text(), 1 => pick(&["1.0.0-post.post.1.post", "1.0.0-99999999999999999999", "1.0.poſt1", "v", "", "1.0.0-dev.dev.dev", "18446744073709551615.0.0", "aééééééé"]).prop_map(String::from)].boxed()),
        Kind::Json => s(prop_oneof![3 => zervgen::custom_json().prop_map(|j| if j.is_empty() { "{}".into() } else { j }), 2 => pick(&["", "{", "[]", "null", "1", "\"x\"", "{\"a\":{\"b\":[1,{\"c\":null}]}}", "{\"a\":1e999}", "{\"é\":\"ü\"}", "{\"a\":\"\\ud800\"}"]).prop_map(String::from)].boxed()),
        Kind::Label => s(prop_oneof![3 => pick(&["alpha", "beta", "rc"]).prop_map(String::from), 2 => pick(&["none", "null", "nil", "", "ALPHA", "a", "gamma", "dev", "{{ bumped_branch }}", "{% if dirty %}rc{% else %}beta{% endif %}", "{{"]).prop_map(String::from)].boxed()),
        Kind::Index => s(
            (prop_oneof![4 => (0i64..5).prop_map(|i| i.to_string()), 2 => pick(&["-1", "-9", "~1", "~0", "~-1", "~", "", "x", "99999999999999999999", "-0", "+1", "1=1"]).prop_map(String::from)],
             proptest::option::weighted(0.7, prop_oneof![3 => num::u32_biased().prop_map(|n| n.to_string()), 2 => text::tame(), 1 => pick(BAD_NUMS).prop_map(String::from), 1 => pick(BAD_TEMPLATES).prop_map(String::from), 2 => pick(&["alpha", "beta", "rc", "post", "dev", "epoch", "none", "a", "b"]).prop_map(String::from)]))
                .prop_map(|(i, v)| match v { Some(v) => format!("{i}={v}"), None => i })
                .boxed(),
        ),
        Kind::Enum(items) => {
            let items: Vec<String> = items.iter().map(|s| s.to_string()).collect();
            s(prop_oneof![6 => super::pick_vec(items), 1 => text::tame()].boxed())
        }
        Kind::SchemaRon => s(prop_oneof![3 => zervgen::valid_schema_p().prop_map(|s| s.to_ron()), 2 => pick(BAD_RON).prop_map(String::from)].boxed()),
        Kind::Template => s(prop_oneof![2 => pick(BAD_TEMPLATES).prop_map(String::from), 2 => fn_call_template(), 1 => pick(&["{{ semver }}", "v{{ major }}.{{ minor }}", "{{ pep440 }}+{{ bumped_commit_hash_short }}", "{{ hash_int(value=bumped_branch, length=5) }}"]).prop_map(String::from), 1 => text::nasty()].boxed()),
        Kind::Rules => s(prop_oneof![1 => pick(BAD_RULES).prop_map(String::from), 1 => text::tame()].boxed()),
        Kind::Dir => s(pick(&["/nonexistent", "/", "/tmp", ".", "", "/etc/passwd", "relative/path"]).prop_map(String::from).boxed()),
    }
}

/// flag list for one sub-command: (name, value)
pub fn adversarial_flags(sub: &'static str) -> BoxedStrategy<Vec<(String, Option<String>)>> {
    let table = flags_of(sub);
    let n = table.len();
    proptest::collection::vec((0..n).prop_flat_map(move |i| {
        let (name, kind) = table[i];
        value_for(kind).prop_map(move |v| (name.to_string(), v))
    }), 0..7)
    .boxed()
}

pub fn to_argv(flags: &[(String, Option<String>)]) -> Vec<String> {
    flags.iter().map(|(n, v)| match v { Some(v) => format!("--{n}={v}"), None => format!("--{n}") }).collect()
}

/// stdin contents: valid objects, truncated / mutated ones, garbage
pub fn stdin_content() -> BoxedStrategy<Option<String>> {
    prop_oneof![
        3 => Just(None),
        4 => zervgen::mzerv_p(true).prop_map(|z| z.to_zerv().ok().map(|z| z.to_string())),
        2 => (zervgen::mzerv(true), any::<prop::sample::Index>()).prop_map(|(z, at)| z.to_zerv().ok().map(|z| { let s = z.to_string(); let mut cut = at.index(s.len() + 1); while !s.is_char_boundary(cut) { cut -= 1; } s[..cut].to_string() })),
        2 => (zervgen::mzerv(true), any::<prop::sample::Index>(), pick(&["(", ")", "\"", "Some(", "None", "\\", "é", "-1", "99999999999999999999", ",", "[", "]", "\u{0}"])).prop_map(|(z, at, ins)| z.to_zerv().ok().map(|z| { let s = z.to_string(); let mut cut = at.index(s.len() + 1); while !s.is_char_boundary(cut) { cut -= 1; } format!("{}{}{}", &s[..cut], ins, &s[cut..]) })),
        1 => pick(BAD_RON).prop_map(|s| Some(s.to_string())),
        1 => text::nasty().prop_map(Some),
    ]
    .boxed()
}
