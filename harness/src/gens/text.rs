//! "Nasty text": branch names, hashes, custom leaves, literals, prefixes (DESIGN.md §3).
use proptest::prelude::*;

pub const REALISTIC: &[&str] = &[
    "main", "master", "develop", "feature/ABC-123_fix", "release/1/x", "release/2",
    "dependabot/npm_and_yarn/lodash-4.17.21", "hotfix/0012", "feature/user-auth",
    "bugfix/JIRA-0007", "users/alice/try.something", "renovate/configure", "HEAD",
    "release", "releasenotes", "release-1", "v1.2.3", "007", "000", "0", "00a", "a00",
    "1e10", "feature/API-v2", "Build-ID-0051", "refs/heads/x", "a", "Z", "-", ".", "/",
];
/// Unicode letters/digits `char::is_alphanumeric` admits, case-folding look-alikes,
/// combining marks, 4-byte characters
pub const UNI: &[&str] = &[
    "é", "ß", "ü", "ñ", "ſ", "\u{212A}", "İ", "ı", "٣", "５", "中", "Ω", "ǅ", "ﬁ", "\u{0301}",
    "\u{200d}", "😀", "𝟘", "𝐀", "²", "½", "Ⅷ", "\u{00a0}", "\u{3000}", "\u{feff}",
];
pub const SEPS: &[&str] = &["/", "-", "_", ".", "+", "@", "#", " ", "//", "--", "..", "-.", "~", "!", ":"];
pub const ODD: &[&str] = &["\"", "'", "\\", "{{", "}}", "{%", "%", "\n", "\t", "\r", "$", "`", "(", ")", "*", "?", "=", ","];
pub const LABELS: &[&str] = &[
    "alpha", "beta", "rc", "post", "dev", "epoch", "a", "b", "c", "pre", "preview", "rev", "r",
    "ALPHA", "Post", "none", "null", "nil", "true", "false",
];
pub const DIGITS: &[&str] = &["0", "1", "7", "00", "007", "0051", "10", "123", "4294967295", "4294967296",
    "18446744073709551615", "18446744073709551616", "99999999999999999999"];

fn word() -> impl Strategy<Value = String> {
    prop_oneof![
        4 => "[a-z]{1,6}",
        2 => "[A-Za-z0-9]{1,8}",
        2 => super::pick(DIGITS).prop_map(String::from),
        2 => super::pick(LABELS).prop_map(String::from),
        2 => super::pick(UNI).prop_map(String::from),
        1 => "[0-9]{1,4}[a-z]{1,3}",
    ]
}
fn piece() -> impl Strategy<Value = String> {
    prop_oneof![
        8 => word(),
        5 => super::pick(SEPS).prop_map(String::from),
        1 => super::pick(ODD).prop_map(String::from),
    ]
}

/// general nasty text, 0..~40 chars typically; occasionally long
pub fn nasty() -> BoxedStrategy<String> {
    prop_oneof![
        3 => super::pick(REALISTIC).prop_map(String::from),
        10 => proptest::collection::vec(piece(), 0..8).prop_map(|v| v.concat()),
        2 => proptest::collection::vec(prop_oneof![word(), super::pick(SEPS).prop_map(String::from)], 1..5).prop_map(|v| v.concat()),
        1 => proptest::collection::vec(any::<char>(), 0..12).prop_map(|v| v.into_iter().filter(|c| *c != '\0').collect()),
        1 => (piece(), 20usize..300).prop_map(|(p, n)| p.repeat(n)),
        1 => Just(String::new()),
        2 => segmented(),
    ]
    .boxed()
}

/// nasty text without control characters / template meta characters (for positions that
/// travel through a command line or a template literal unchanged)
pub fn tame() -> BoxedStrategy<String> {
    proptest::collection::vec(prop_oneof![8 => word(), 5 => super::pick(SEPS).prop_map(String::from)], 0..7)
        .prop_map(|v| v.concat())
        .boxed()
}

/// look-alikes whose case folding / digit class maps them onto ASCII
pub const LOOKALIKES: &[(char, &str)] = &[
    ('k', "\u{212A}"), ('K', "\u{212A}"), ('s', "\u{017F}"), ('S', "\u{017F}"), ('i', "\u{0130}"), ('I', "\u{0130}"), ('i', "\u{0131}"),
    ('0', "０"), ('1', "１"), ('3', "٣"), ('5', "５"), ('a', "а"), ('e', "е"), ('o', "о"), ('c', "с"), ('p', "р"),
];
/// pad `base` (a valid version string) with extra dot-separated identifiers appended by `joiner`
/// until it is at least `min_len` bytes long, then (optionally) replace one ASCII character that
/// has a look-alike by it.  Returns (string, substituted?)
pub fn lengthen_and_disguise(base: &str, first_joiner: &str, min_len: usize, words: &[&str], pick: u64, disguise: bool) -> (String, bool) {
    let mut s = base.to_string();
    let mut k = pick;
    let mut first = true;
    while s.len() < min_len {
        k = k.wrapping_mul(6364136223846793005).wrapping_add(1442695040888963407);
        s.push_str(if first { first_joiner } else { "." });
        first = false;
        s.push_str(words[(k >> 33) as usize % words.len()]);
    }
    if !disguise {
        return (s, false);
    }
    let cands: Vec<(usize, &str)> = s.char_indices().filter_map(|(i, c)| {
        let alts: Vec<&str> = LOOKALIKES.iter().filter(|l| l.0 == c).map(|l| l.1).collect();
        if alts.is_empty() { None } else { Some((i, alts[(k >> 20) as usize % alts.len()])) }
    }).collect();
    if cands.is_empty() {
        return (s, false);
    }
    let (i, rep) = cands[(k >> 7) as usize % cands.len()];
    let mut out = String::with_capacity(s.len() + 4);
    out.push_str(&s[..i]);
    out.push_str(rep);
    out.push_str(&s[i + 1..]);
    (out, true)
}

/// arbitrary Unicode strings (no NUL)
pub fn unicode(max: usize) -> BoxedStrategy<String> {
    proptest::collection::vec(
        prop_oneof![
            6 => proptest::char::range(' ', '~'),
            2 => super::pick(UNI).prop_map(|s| s.chars().next().unwrap()),
            1 => any::<char>().prop_filter("nul", |c| *c != '\0'),
        ],
        0..max,
    )
    .prop_map(|v| v.into_iter().collect())
    .boxed()
}


/// Identifier shapes seen in real version strings: `git describe` suffixes, commit hashes, CI
/// build numbers, dates and timestamps, Maven / npm / Python habits, platform tags.  Every
/// value is one SemVer identifier ([0-9A-Za-z-]+); callers lower-case it for PEP 440 locals.
pub fn realistic_ident() -> BoxedStrategy<String> {
    let hex = || prop_oneof![3 => "[0-9a-f]{7}", 2 => "[0-9a-f]{8,12}", 1 => "[0-9a-f]{40}", 1 => "[0-9a-f]{6}", 1 => "[0-9A-F]{7,10}"];
    let n = || prop_oneof![3 => (0u32..30).prop_map(|x| x.to_string()), 1 => (0u32..100000).prop_map(|x| x.to_string()), 1 => super::pick(&["0", "00", "01", "007"]).prop_map(String::from)];
    let date = || (1990u32..2100, 1u32..13, 1u32..29).prop_map(|(y, m, d)| format!("{y}{m:02}{d:02}"));
    let time = || (0u32..24, 0u32..60, 0u32..60).prop_map(|(h, m, s)| format!("{h:02}{m:02}{s:02}"));
    prop_oneof![
        4 => (n(), hex()).prop_map(|(n, h)| format!("{n}-g{h}")),
        2 => hex().prop_map(|h| format!("g{h}")),
        2 => hex(),
        1 => hex().prop_map(|h| format!("sha-{h}")),
        2 => super::pick(&["SNAPSHOT", "snapshot", "final", "Final", "RELEASE", "GA", "nightly", "canary", "next", "latest", "insiders", "exp", "hotfix", "patch", "M1", "CR2", "SP1", "x86-64", "amd64", "linux-gnu", "py3-none-any", "cp311", "win32", "dirty", "modified", "local"]).prop_map(String::from),
        2 => date(),
        1 => (date(), time()).prop_map(|(d, t)| format!("{d}{t}")),
        1 => (date(), time()).prop_map(|(d, t)| format!("{d}T{t}Z")),
        1 => (date(), time()).prop_map(|(d, t)| format!("{d}-{t}")),
        2 => (super::pick(&["rc", "RC", "beta", "alpha", "a", "b", "c", "pre", "preview", "dev", "post", "rev", "r", "p", "build", "b", "ci", "pr", "m"]), super::pick(&["", "-", "--"]), n()).prop_map(|(l, s, n)| format!("{l}{s}{n}")),
        1 => (n(), n()).prop_map(|(a, b)| format!("{a}-{b}")),
        1 => (n(), super::pick(&["a", "b", "rc", "dev", "post", "x", "e5", "E5", "e", "f"]), n()).prop_map(|(a, l, b)| format!("{a}{l}{b}")),
        1 => "0{1,3}[1-9][0-9]{19,26}",
        1 => "[1-9][0-9]{19,26}",
        1 => super::pick(&["-", "--", "-1", "1-", "-0", "0-", "-a", "a-", "g", "g-", "-g1234567"]).prop_map(String::from),
    ]
    .boxed()
}


/// Segmented text with heavy zero padding: what build numbers, ticket ids and dates look like
/// (`0000000123-linux-x64`, `007/00/a`), for the zero-stripping and truncation paths.
pub fn segmented() -> BoxedStrategy<String> {
    let seg = prop_oneof![
        4 => "0{0,14}[0-9]{0,6}",
        3 => "[a-zA-Z]{1,6}",
        2 => "0{1,8}[a-z]{1,3}",
        1 => "[a-z]{1,3}0{1,8}",
        1 => Just("0".to_string()),
        1 => "0{2,20}",
    ];
    let sep = super::pick(&["-", "/", ".", "_", "--", " ", "+", ".-", "é"]);
    (proptest::collection::vec((seg, sep), 1..7), any::<bool>())
        .prop_map(|(parts, trailing)| {
            let mut s = String::new();
            let n = parts.len();
            for (i, (p, sp)) in parts.into_iter().enumerate() {
                s.push_str(&p);
                if i + 1 < n || trailing {
                    s.push_str(sp);
                }
            }
            s
        })
        .boxed()
}
