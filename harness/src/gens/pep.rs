//! PEP 440 generators: structured versions and all their spellings (DESIGN.md §3).
use super::pick;
use proptest::prelude::*;
use serde::{Deserialize, Serialize};

#[derive(Debug, Clone, Hash, PartialEq, Eq, Serialize, Deserialize)]
pub struct PepV {
    pub epoch: u64,
    pub release: Vec<u64>,
    pub pre: Option<(u8, u64)>, // 0 a, 1 b, 2 rc
    pub post: Option<u64>,
    pub dev: Option<u64>,
    pub local: Option<Vec<String>>, // lower-case alnum parts; numeric ones canonical
}

impl PepV {
    pub fn normal(&self) -> String {
        let mut o = String::new();
        if self.epoch != 0 {
            o.push_str(&format!("{}!", self.epoch));
        }
        o.push_str(&self.release.iter().map(|n| n.to_string()).collect::<Vec<_>>().join("."));
        if let Some((l, n)) = &self.pre {
            o.push_str(["a", "b", "rc"][*l as usize]);
            o.push_str(&n.to_string());
        }
        if let Some(n) = self.post {
            o.push_str(&format!(".post{n}"));
        }
        if let Some(n) = self.dev {
            o.push_str(&format!(".dev{n}"));
        }
        if let Some(l) = &self.local {
            o.push('+');
            o.push_str(&l.join("."));
        }
        o
    }
}

/// numbers within the documented u32 range
pub fn n32() -> BoxedStrategy<u64> {
    super::num::u32_biased()
}

pub fn local_part() -> BoxedStrategy<String> {
    prop_oneof![
        3 => "[a-z]{1,5}",
        2 => "[a-z0-9]{1,6}",
        2 => n32().prop_map(|n| n.to_string()),
        1 => pick(&["a", "z", "abc", "1a", "a1", "0a", "x0", "dev", "post", "rc1"]).prop_map(String::from),
        // real-world shapes, split at '-' (a separator in a local version) and lower-cased; numbers beyond u32 / u64
        2 => super::text::realistic_ident().prop_map(|s| s.to_ascii_lowercase().split('-').find(|p| !p.is_empty()).unwrap_or("x").to_string()),
        1 => "[1-9][0-9]{9,26}",
        // one segment longer than a commit hash
        1 => "[a-z0-9]{41,70}",
        1 => "[1-9][0-9]{40,60}",
    ]
    .prop_map(|s| if s.bytes().all(|b| b.is_ascii_digit()) { s.trim_start_matches('0').to_string() } else { s })
    .prop_map(|s| if s.is_empty() { "0".to_string() } else { s })
    .boxed()
}

pub fn pepv(max_release: usize) -> BoxedStrategy<PepV> {
    (
        prop_oneof![3 => Just(0u64), 1 => n32()],
        proptest::collection::vec(n32(), 1..=max_release),
        proptest::option::weighted(0.5, (0u8..3, n32())),
        proptest::option::weighted(0.4, n32()),
        proptest::option::weighted(0.4, n32()),
        proptest::option::weighted(0.4, proptest::collection::vec(local_part(), 1..4)),
    )
        .prop_map(|(epoch, release, pre, post, dev, local)| PepV { epoch, release, pre, post, dev, local })
        .boxed()
}

/// choices that select one spelling of a version (all shrink towards the normal form)
#[derive(Debug, Clone, Hash, PartialEq, Eq, Serialize, Deserialize)]
pub struct Spelling {
    pub v: u8,            // 0 none 1 v 2 V
    pub epoch0: bool,     // write explicit "0!" when epoch == 0
    pub zeros: Vec<u8>,   // leading zeros per number (cyclic)
    pub pre_sep1: u8,     // 0 "" 1 . 2 - 3 _
    pub pre_label: u8,    // alternative index
    pub pre_sep2: u8,
    pub post_sep1: u8,
    pub post_label: u8,   // 0 post 1 rev 2 r 3 "-N" form
    pub post_sep2: u8,
    pub dev_sep1: u8,
    pub dev_sep2: u8,
    pub upper: u8,        // 0 lower 1 upper 2 title/mixed
    pub local_seps: Vec<u8>,
    pub implicit: bool,   // omit numbers that are 0 where the grammar allows
    pub trailing_zero_release: u8,
    /// with an omitted number, still write the separator after the label ("1.0a.", "1.0.post_")
    #[serde(default)]
    pub dangling: bool,
}
pub fn spelling() -> BoxedStrategy<Spelling> {
    (
        (0u8..3, any::<bool>(), proptest::collection::vec(prop_oneof![12 => 0u8..3, 1 => 8u8..24], 1..6), 0u8..4, 0u8..4, 0u8..4),
        (0u8..4, 0u8..4, 0u8..4, 0u8..4, 0u8..4, 0u8..3),
        (proptest::collection::vec(0u8..3, 1..4), any::<bool>(), 0u8..3, prop::bool::weighted(0.3)),
    )
        .prop_map(|((v, epoch0, zeros, pre_sep1, pre_label, pre_sep2), (post_sep1, post_label, post_sep2, dev_sep1, dev_sep2, upper), (local_seps, implicit, trailing_zero_release, dangling))| Spelling {
            v, epoch0, zeros, pre_sep1, pre_label, pre_sep2, post_sep1, post_label, post_sep2, dev_sep1, dev_sep2, upper, local_seps, implicit, trailing_zero_release, dangling,
        })
        .boxed()
}

const SEP: [&str; 4] = ["", ".", "-", "_"];
fn casing(s: &str, mode: u8) -> String {
    match mode {
        0 => s.to_string(),
        1 => s.to_ascii_uppercase(),
        _ => s.chars().enumerate().map(|(i, c)| if i % 2 == 0 { c.to_ascii_uppercase() } else { c }).collect(),
    }
}

/// Render `p` in the spelling `sp`.  `extend_release`: append ".0" release numbers (changes
/// the printed normal form but not the version's identity under comparison).
pub fn spell(p: &PepV, sp: &Spelling, extend_release: bool) -> String {
    let mut zi = 0usize;
    let mut num = |n: u64| -> String {
        let z = sp.zeros[zi % sp.zeros.len()] as usize;
        zi += 1;
        format!("{}{}", "0".repeat(z), n)
    };
    let mut o = String::new();
    o.push_str(["", "v", "V"][sp.v as usize]);
    if p.epoch != 0 || sp.epoch0 {
        o.push_str(&num(p.epoch));
        o.push('!');
    }
    let rel: Vec<String> = p.release.iter().map(|n| num(*n)).collect();
    o.push_str(&rel.join("."));
    if extend_release {
        for _ in 0..sp.trailing_zero_release {
            o.push_str(".0");
        }
    }
    if let Some((l, n)) = &p.pre {
        let alts: &[&str] = match l {
            0 => &["a", "alpha"],
            1 => &["b", "beta"],
            _ => &["rc", "c", "pre", "preview"],
        };
        o.push_str(SEP[sp.pre_sep1 as usize]);
        o.push_str(&casing(alts[sp.pre_label as usize % alts.len()], sp.upper));
        if *n == 0 && sp.implicit {
            // implicit number; the grammar still allows a separator after the label
            if sp.dangling {
                o.push_str(SEP[sp.pre_sep2 as usize]);
            }
        } else {
            o.push_str(SEP[sp.pre_sep2 as usize]);
            o.push_str(&num(*n));
        }
    }
    // "1.0a-1" reads as a1, so the "-N" post form cannot follow an omitted pre-release number
    let pre_number_omitted = matches!(p.pre, Some((_, 0))) && sp.implicit;
    if let Some(n) = p.post {
        if sp.post_label == 3 && !(n == 0 && sp.implicit) && !pre_number_omitted {
            o.push('-');
            o.push_str(&num(n));
        } else {
            let alts = ["post", "rev", "r"];
            o.push_str(SEP[sp.post_sep1 as usize]);
            o.push_str(&casing(alts[sp.post_label as usize % 3], sp.upper));
            if !(n == 0 && sp.implicit) {
                o.push_str(SEP[sp.post_sep2 as usize]);
                o.push_str(&num(n));
            } else if sp.dangling {
                o.push_str(SEP[sp.post_sep2 as usize]);
            }
        }
    }
    if let Some(n) = p.dev {
        o.push_str(SEP[sp.dev_sep1 as usize]);
        o.push_str(&casing("dev", sp.upper));
        if !(n == 0 && sp.implicit) {
            o.push_str(SEP[sp.dev_sep2 as usize]);
            o.push_str(&num(n));
        } else if sp.dangling {
            o.push_str(SEP[sp.dev_sep2 as usize]);
        }
    }
    if let Some(l) = &p.local {
        o.push('+');
        for (i, part) in l.iter().enumerate() {
            if i > 0 {
                o.push_str([".", "-", "_"][sp.local_seps[i % sp.local_seps.len()] as usize]);
            }
            if part.bytes().all(|b| b.is_ascii_digit()) {
                // numeric local parts may exceed u64: pad the digit string itself
                let z = sp.zeros[zi % sp.zeros.len()] as usize;
                zi += 1;
                o.push_str(&"0".repeat(z));
                o.push_str(part);
            } else {
                o.push_str(&casing(part, sp.upper));
            }
        }
    }
    o
}

impl Spelling {
    /// deterministic spelling from a 64-bit value (used by the exhaustive enumerations,
    /// which do not depend on the seed)
    pub fn from_bits(mut x: u64) -> Spelling {
        let mut take = |m: u64| -> u8 {
            x = crate::runner::splitmix(x);
            (x % m) as u8
        };
        Spelling {
            v: take(3),
            epoch0: take(2) == 1,
            zeros: vec![take(3), take(2), take(3)],
            pre_sep1: take(4),
            pre_label: take(4),
            pre_sep2: take(4),
            post_sep1: take(4),
            post_label: take(4),
            post_sep2: take(4),
            dev_sep1: take(4),
            dev_sep2: take(4),
            upper: take(3),
            local_seps: vec![take(3), take(3)],
            implicit: take(2) == 1,
            trailing_zero_release: take(3),
            dangling: take(3) == 0,
        }
    }
}


/// The normal form of `p` with exactly ONE departure from it (a report that looks at a few
/// features only, e.g. a regular expression for "canonical", misses the one it does not look at).
/// Returns the normal form itself when the chosen departure does not apply.
pub fn one_deviation(p: &PepV, kind: u8, k: usize) -> String {
    let n = p.normal();
    let (public, local) = match n.split_once('+') {
        Some((a, b)) => (a.to_string(), Some(b.to_string())),
        None => (n.clone(), None),
    };
    let join = |pubp: String, loc: Option<String>| match loc {
        Some(l) => format!("{pubp}+{l}"),
        None => pubp,
    };
    // positions of digit runs in the public part
    let runs = |t: &str| -> Vec<(usize, usize)> {
        let b = t.as_bytes();
        let mut v = vec![];
        let mut i = 0;
        while i < b.len() {
            if b[i].is_ascii_digit() {
                let s = i;
                while i < b.len() && b[i].is_ascii_digit() {
                    i += 1;
                }
                v.push((s, i));
            } else {
                i += 1;
            }
        }
        v
    };
    match kind % 10 {
        0 => format!("v{n}"),
        1 => {
            // upper-case one letter
            let idx: Vec<usize> = n.char_indices().filter(|(_, c)| c.is_ascii_lowercase()).map(|(i, _)| i).collect();
            if idx.is_empty() {
                return n;
            }
            let i = idx[k % idx.len()];
            format!("{}{}{}", &n[..i], n[i..i + 1].to_ascii_uppercase(), &n[i + 1..])
        }
        2 => {
            // leading zero on one number of the public part
            let r = runs(&public);
            if r.is_empty() {
                return n;
            }
            let (s, _) = r[k % r.len()];
            join(format!("{}0{}", &public[..s], &public[s..]), local)
        }
        3 => {
            // leading zero on one all-digit local segment
            let Some(l) = local else { return n };
            let mut segs: Vec<String> = l.split('.').map(String::from).collect();
            let numeric: Vec<usize> = segs.iter().enumerate().filter(|(_, x)| x.bytes().all(|b| b.is_ascii_digit())).map(|(i, _)| i).collect();
            if numeric.is_empty() {
                return n;
            }
            let i = numeric[k % numeric.len()];
            segs[i] = format!("{}{}", "0".repeat(1 + k % 3), segs[i]);
            join(public, Some(segs.join(".")))
        }
        4 => {
            // another separator inside the local part
            let Some(l) = local else { return n };
            let dots: Vec<usize> = l.char_indices().filter(|(_, c)| *c == '.').map(|(i, _)| i).collect();
            if dots.is_empty() {
                return n;
            }
            let i = dots[k % dots.len()];
            join(public, Some(format!("{}{}{}", &l[..i], ["-", "_"][k % 2], &l[i + 1..])))
        }
        5 => {
            if p.epoch == 0 { format!("0!{n}") } else { n }
        }
        6 => {
            // alternative label spelling
            for (from, to) in [("rc", ["c", "pre", "preview"][k % 3]), (".post", ["-post", "post", ".rev", ".r", "_post"][k % 5]), (".dev", ["dev", "-dev", "_dev"][k % 3]), ("a", "alpha"), ("b", "beta")] {
                if let Some(i) = public.find(from) {
                    // "a"/"b" only as the pre-release label (directly after a digit)
                    if from.len() == 1 && !(i > 0 && public.as_bytes()[i - 1].is_ascii_digit()) {
                        continue;
                    }
                    return join(format!("{}{}{}", &public[..i], to, &public[i + from.len()..]), local);
                }
            }
            n
        }
        7 => {
            // a separator between label and number
            for lab in ["rc", "post", "dev", "a", "b"] {
                if let Some(i) = public.find(lab) {
                    if lab.len() == 1 && !(i > 0 && public.as_bytes()[i - 1].is_ascii_digit()) {
                        continue;
                    }
                    let j = i + lab.len();
                    if j < public.len() && public.as_bytes()[j].is_ascii_digit() {
                        return join(format!("{}{}{}", &public[..j], [".", "-", "_"][k % 3], &public[j..]), local);
                    }
                }
            }
            n
        }
        8 => {
            // a separator before the pre-release label
            for lab in ["rc", "a", "b"] {
                if let Some(i) = public.find(lab)
                    && i > 0
                    && public.as_bytes()[i - 1].is_ascii_digit()
                {
                    return join(format!("{}{}{}", &public[..i], [".", "-", "_"][k % 3], &public[i..]), local);
                }
            }
            n
        }
        _ => n,
    }
}
