//! In-process entry points of the zerv sub-commands (observation layer L1): the same clap
//! definitions and pipeline functions `zerv::cli::run_with_args` uses.
use crate::runner::no_panic;
use clap::Parser;
use zerv::cli::{CheckArgs, FlowArgs, RenderArgs, VersionArgs, run_check_command, run_flow_pipeline, run_render, run_version_pipeline};

#[derive(Debug, Clone, PartialEq)]
pub enum Run {
    Ok(String),
    /// clap rejected the argument vector
    Usage(String),
    /// the pipeline returned an error
    Err(String),
    /// zerv panicked (message @ file:line)
    Panic(String),
}
impl Run {
    pub fn ok(&self) -> Option<&str> {
        match self {
            Run::Ok(s) => Some(s),
            _ => None,
        }
    }
    pub fn is_ok(&self) -> bool {
        matches!(self, Run::Ok(_))
    }
    pub fn is_panic(&self) -> bool {
        matches!(self, Run::Panic(_))
    }
    pub fn describe(&self) -> String {
        match self {
            Run::Ok(s) => format!("ok {s:?}"),
            Run::Usage(e) => format!("usage error: {}", e.lines().next().unwrap_or("")),
            Run::Err(e) => format!("error: {e}"),
            Run::Panic(p) => format!("PANIC: {p}"),
        }
    }
}

fn argv(sub: &str, args: &[String]) -> Vec<String> {
    std::iter::once(sub.to_string()).chain(args.iter().cloned()).collect()
}

pub fn version(args: &[String], stdin: Option<&str>) -> Run {
    match no_panic(|| match VersionArgs::try_parse_from(argv("version", args)) {
        Err(e) => Run::Usage(e.to_string()),
        Ok(a) => match run_version_pipeline(a, stdin) {
            Ok(s) => Run::Ok(s),
            Err(e) => Run::Err(e.to_string()),
        },
    }) {
        Ok(r) => r,
        Err(p) => Run::Panic(p),
    }
}
pub fn flow(args: &[String], stdin: Option<&str>) -> Run {
    match no_panic(|| match FlowArgs::try_parse_from(argv("flow", args)) {
        Err(e) => Run::Usage(e.to_string()),
        Ok(a) => match run_flow_pipeline(a, stdin) {
            Ok(s) => Run::Ok(s),
            Err(e) => Run::Err(e.to_string()),
        },
    }) {
        Ok(r) => r,
        Err(p) => Run::Panic(p),
    }
}
pub fn render(args: &[String]) -> Run {
    match no_panic(|| match RenderArgs::try_parse_from(argv("render", args)) {
        Err(e) => Run::Usage(e.to_string()),
        Ok(a) => match run_render(a) {
            Ok(s) => Run::Ok(s),
            Err(e) => Run::Err(e.to_string()),
        },
    }) {
        Ok(r) => r,
        Err(p) => Run::Panic(p),
    }
}
pub fn check(args: &[String]) -> Run {
    match no_panic(|| match CheckArgs::try_parse_from(argv("check", args)) {
        Err(e) => Run::Usage(e.to_string()),
        Ok(a) => match run_check_command(a) {
            Ok(s) => Run::Ok(s),
            Err(e) => Run::Err(e.to_string()),
        },
    }) {
        Ok(r) => r,
        Err(p) => Run::Panic(p),
    }
}

pub fn sv(items: &[&str]) -> Vec<String> {
    items.iter().map(|s| s.to_string()).collect()
}
