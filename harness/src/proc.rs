//! Subprocess runner for the real zerv binary (observation layer L2).
use std::io::{Read, Write};
use std::process::{Command, Stdio};
use std::time::{Duration, Instant};

#[derive(Debug, Clone)]
pub struct Out {
    pub code: Option<i32>,
    pub signal: Option<i32>,
    pub stdout: Vec<u8>,
    pub stderr: Vec<u8>,
    pub timed_out: bool,
}
impl Out {
    pub fn out_str(&self) -> String {
        String::from_utf8_lossy(&self.stdout).into_owned()
    }
    pub fn err_str(&self) -> String {
        String::from_utf8_lossy(&self.stderr).into_owned()
    }
    pub fn ok(&self) -> bool {
        self.code == Some(0)
    }
}

pub fn zerv_bin() -> String {
    std::env::var("ZERV_BIN").unwrap_or_else(|_| "/verif/.cache/target-repo/debug/zerv".into())
}

#[derive(Default, Clone, Debug)]
pub struct Spec {
    pub args: Vec<String>,
    pub stdin: Option<Vec<u8>>,
    pub env: Vec<(String, String)>,
    pub cwd: Option<String>,
    pub path: Option<String>,
    pub bin: Option<String>,
    /// seconds before the child is killed and reported as timed out (default 30)
    pub timeout_s: Option<u64>,
    /// connect stdout to this file instead of a pipe (e.g. /dev/full: every write fails)
    pub stdout_to: Option<String>,
    /// extra arguments as raw bytes, appended after `args` (argv that is not valid UTF-8)
    pub raw_args: Vec<Vec<u8>>,
}

pub const BASE_PATH: &str = "/usr/local/sbin:/usr/local/bin:/usr/sbin:/usr/bin:/sbin:/bin";

/// Hermetic run: environment cleared to an allow-list, git config neutralised.
pub fn run(spec: &Spec) -> Out {
    let bin = spec.bin.clone().unwrap_or_else(zerv_bin);
    let mut cmd = Command::new(bin);
    cmd.args(&spec.args);
    for a in &spec.raw_args {
        use std::os::unix::ffi::OsStrExt;
        cmd.arg(std::ffi::OsStr::from_bytes(a));
    }
    cmd.env_clear();
    cmd.env("PATH", spec.path.clone().unwrap_or_else(|| BASE_PATH.to_string()));
    cmd.env("HOME", "/nonexistent");
    cmd.env("LANG", "C");
    cmd.env("TZ", "UTC");
    cmd.env("GIT_CONFIG_GLOBAL", "/dev/null");
    cmd.env("GIT_CONFIG_SYSTEM", "/dev/null");
    cmd.env("GIT_CONFIG_NOSYSTEM", "1");
    cmd.env("PAGER", "cat");
    for (k, v) in &spec.env {
        // "\0HEX:<hex>" stands for raw bytes (names and values that are not valid UTF-8)
        let raw = |t: &str| -> std::ffi::OsString {
            use std::os::unix::ffi::OsStringExt;
            match t.strip_prefix("\u{0}HEX:") {
                Some(h) => std::ffi::OsString::from_vec((0..h.len() / 2).filter_map(|i| u8::from_str_radix(&h[2 * i..2 * i + 2], 16).ok()).collect()),
                None => t.into(),
            }
        };
        if v == "\u{0}UNSET" {
            cmd.env_remove(k);
        } else {
            cmd.env(raw(k), raw(v));
        }
    }
    if let Some(c) = &spec.cwd {
        cmd.current_dir(c);
    }
    // stdin: a pipe with the given content, or an empty pipe (never a terminal)
    cmd.stdin(Stdio::piped()).stderr(Stdio::piped());
    match spec.stdout_to.as_ref().and_then(|p| std::fs::OpenOptions::new().write(true).open(p).ok()) {
        Some(f) => {
            cmd.stdout(f);
        }
        None => {
            cmd.stdout(Stdio::piped());
        }
    }
    let mut child = match cmd.spawn() {
        Ok(c) => c,
        Err(e) => {
            return Out { code: None, signal: None, stdout: vec![], stderr: format!("spawn failed: {e}").into_bytes(), timed_out: false };
        }
    };
    let mut stdin = child.stdin.take();
    let data = spec.stdin.clone();
    let wr = std::thread::spawn(move || {
        if let (Some(mut s), Some(d)) = (stdin.take(), data) {
            let _ = s.write_all(&d);
        }
    });
    let so = child.stdout.take();
    let mut se = child.stderr.take().unwrap();
    let t1 = std::thread::spawn(move || {
        let mut v = Vec::new();
        if let Some(mut so) = so {
            let _ = so.read_to_end(&mut v);
        }
        v
    });
    let t2 = std::thread::spawn(move || {
        let mut v = Vec::new();
        let _ = se.read_to_end(&mut v);
        v
    });
    let t0 = Instant::now();
    let mut timed_out = false;
    let status = loop {
        match child.try_wait() {
            Ok(Some(st)) => break Some(st),
            Ok(None) => {
                if t0.elapsed() > Duration::from_secs(spec.timeout_s.unwrap_or(30)) {
                    let _ = child.kill();
                    timed_out = true;
                    break child.wait().ok();
                }
                std::thread::sleep(Duration::from_micros(300));
            }
            Err(_) => break None,
        }
    };
    let _ = wr.join();
    let stdout = t1.join().unwrap_or_default();
    let stderr = t2.join().unwrap_or_default();
    use std::os::unix::process::ExitStatusExt;
    Out {
        code: status.and_then(|s| s.code()),
        signal: status.and_then(|s| s.signal()),
        stdout,
        stderr,
        timed_out,
    }
}

pub fn zerv(args: &[&str], stdin: Option<&str>) -> Out {
    run(&Spec { args: args.iter().map(|s| s.to_string()).collect(), stdin: stdin.map(|s| s.as_bytes().to_vec()), ..Default::default() })
}

/// argv-safe: no NUL
pub fn argv_safe(s: &str) -> bool {
    !s.contains('\0')
}
