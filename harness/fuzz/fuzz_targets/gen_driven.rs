// Coverage-guided execution of ANY generator-backed sub-check of the engine (DESIGN.md §7.2).
// The libFuzzer input is the random source of the sub-check's own proptest strategy
// (RngAlgorithm::PassThrough), the verdict is the sub-check's own oracle, known findings are
// absorbed by the same signatures, and a failure is shrunk with proptest's value tree and
// written as an ordinary replay file (`./check <ID> --replay <file>` re-judges it without
// libFuzzer).  Selected by ZV_GD=<ID>:<sub-check>; counters go to ZV_GD_STATS at exit.
#![no_main]
use libfuzzer_sys::fuzz_target;
use std::cell::RefCell;
use std::sync::atomic::{AtomicU64, Ordering};
use zv::runner::{self, FuzzOut, RunEnv, Tier};

static EXECS: AtomicU64 = AtomicU64::new(0);
static SKIPS: AtomicU64 = AtomicU64::new(0);
static NONTRIVIAL: AtomicU64 = AtomicU64::new(0);
static KNOWN: AtomicU64 = AtomicU64::new(0);

thread_local! {
    static F: RefCell<Option<Box<dyn FnMut(&[u8]) -> FuzzOut>>> = const { RefCell::new(None) };
}

extern "C" fn write_stats() {
    if let Ok(p) = std::env::var("ZV_GD_STATS") {
        let _ = std::fs::write(
            p,
            format!(
                "{{\"execs\": {}, \"skipped\": {}, \"nontrivial\": {}, \"known\": {}}}\n",
                EXECS.load(Ordering::Relaxed),
                SKIPS.load(Ordering::Relaxed),
                NONTRIVIAL.load(Ordering::Relaxed),
                KNOWN.load(Ordering::Relaxed)
            ),
        );
    }
}

fn setup() -> Box<dyn FnMut(&[u8]) -> FuzzOut> {
    let sel = std::env::var("ZV_GD").expect("ZV_GD=<ID>:<sub-check>");
    let (id, sub) = sel.split_once(':').expect("ZV_GD=<ID>:<sub-check>");
    let root = std::path::PathBuf::from(std::env::var("VERIF_ROOT").unwrap_or_else(|_| "/verif".into()));
    // same process conditions as the engine's in-process layer (main.rs)
    unsafe { std::env::set_var("TZ", "<+14>-14") };
    let _ = std::env::set_current_dir("/");
    runner::install_panic_hook(); // replaces libFuzzer's abort-on-panic hook: panics are judged by the oracle
    if id == "C13" {
        let _ = tracing_subscriber::fmt().with_writer(std::io::sink).with_max_level(tracing::Level::TRACE).try_init();
    }
    let prop: &'static runner::Property = Box::leak(Box::new(zv::props::by_id(id).expect("unknown property")));
    let kf = runner::load_known(&root);
    let tier = if std::env::var("ZV_GD_TIER").as_deref() == Ok("quick") { Tier::Quick } else { Tier::Thorough };
    let env: &'static RunEnv = Box::leak(Box::new(RunEnv {
        prop: prop.id,
        tier,
        seed: 0,
        root,
        open_known: kf.findings.iter().filter(|f| f.property == prop.id && f.status == "open").map(|f| f.id.clone()).collect(),
    }));
    let s = prop.subs.iter().find(|s| s.name() == sub).unwrap_or_else(|| panic!("no sub-check {sub} in {id}"));
    unsafe { libc::atexit(write_stats) };
    s.fuzzer(env).unwrap_or_else(|| panic!("sub-check {sub} has no generator"))
}

fuzz_target!(|data: &[u8]| {
    F.with(|f| {
        let mut g = f.borrow_mut();
        if g.is_none() {
            *g = Some(setup());
        }
        EXECS.fetch_add(1, Ordering::Relaxed);
        match (g.as_mut().unwrap())(data) {
            FuzzOut::Skip => {
                SKIPS.fetch_add(1, Ordering::Relaxed);
            }
            FuzzOut::Pass { nontrivial } => {
                if nontrivial {
                    NONTRIVIAL.fetch_add(1, Ordering::Relaxed);
                }
            }
            FuzzOut::Known(_) => {
                KNOWN.fetch_add(1, Ordering::Relaxed);
            }
            FuzzOut::Fail { msg, replay } => {
                eprintln!("GD-FAIL replay={replay}\nGD-MSG {}", msg.replace('\n', " "));
                write_stats();
                std::process::abort();
            }
        }
    })
});
