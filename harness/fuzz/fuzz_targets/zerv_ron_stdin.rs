#![no_main]
use clap::Parser;
use libfuzzer_sys::fuzz_target;
use std::str::FromStr;
use zerv::cli::{VersionArgs, run_version_pipeline};
use zerv::version::Zerv;

fuzz_target!(|data: &[u8]| {
    let doc = String::from_utf8_lossy(data).into_owned();
    for fmt in ["zerv", "semver", "pep440"] {
        let a = VersionArgs::try_parse_from(["version", "--source", "stdin", "--output-format", fmt]).unwrap();
        // C13: never a panic; C12: what is accepted re-emits losslessly
        if let (Ok(out), "zerv") = (run_version_pipeline(a, Some(&doc)), fmt) {
            let z = Zerv::from_str(&out).unwrap_or_else(|e| panic!("C12: emitted object does not parse: {e}\n{out}"));
            assert_eq!(z.to_string(), out, "C12: re-emit is not byte-identical");
            z.schema.validate().unwrap_or_else(|e| panic!("C12: emitted object has an invalid schema: {e}"));
        }
    }
});
