#![no_main]
mod common;
use common::opep;
use libfuzzer_sys::fuzz_target;
use std::str::FromStr;
use zerv::version::PEP440;

const T: [&str; 34] = ["0", "1", "9", "00", "a", "b", "c", "rc", "alpha", "beta", "pre", "preview", "post", "rev", "r", "dev", ".", "-", "_", "+", "!", "v", "V", "ſ", "\u{212A}", "A", "RC", "Post", "x", "4294967295", "4294967296", "e", "l", "99999999999"];

fuzz_target!(|data: &[u8]| {
    let s = if data.first() == Some(&0xff) { String::from_utf8_lossy(&data[1..]).into_owned() } else { common::decode(data, &T) };
    let z = PEP440::from_str(&s);
    let o = opep::parse(&s);
    match (&z, &o) {
        (Ok(v), Some(p)) => {
            let nf = opep::normal_form(p);
            let printed = v.to_string();
            assert_eq!(printed, nf, "C09: accepted {s:?} but prints {printed:?}; normal form {nf:?}");
            let v2 = PEP440::from_str(&printed).unwrap_or_else(|e| panic!("C09: normal form {printed:?} of {s:?} rejected: {e}"));
            assert_eq!(v2.to_string(), printed, "C09: normalising is not idempotent on {s:?}");
            assert!(v2 == *v, "C09: normal form does not compare equal to the original {s:?}");
        }
        (Ok(v), None) => panic!("C09: accepted {s:?} (prints {:?}) which is not PEP 440", v.to_string()),
        (Err(_), Some(p)) => assert!(!(opep::numbers_fit_u32(p) && opep::local_numbers_fit_u32(p)), "C09: rejected valid PEP 440 {s:?}"),
        (Err(_), None) => {}
    }
});
