#![no_main]
mod common;
use clap::Parser;
use common::{opep, osem};
use libfuzzer_sys::fuzz_target;
use zerv::cli::{RenderArgs, run_render};

const T: [&str; 30] = ["0", "1", "9", "10", ".", "-", "+", "!", "alpha", "beta", "rc", "post", "dev", "epoch", "a", "b", "c", "pre", "x", "v", "4294967295", "4294967296", "18446744073709551615", "18446744073709551616", "Post", "ALPHA", "_", "r", "rev", "00"];

fn render(v: &str, from: &str, to: &str) -> Result<String, String> {
    let a = RenderArgs::try_parse_from(["render", "--input-format", from, "--output-format", to, "--", v]).map_err(|e| e.to_string())?;
    run_render(a).map_err(|e| e.to_string())
}

fuzz_target!(|data: &[u8]| {
    if data.is_empty() {
        return;
    }
    let from = ["auto", "semver", "pep440"][(data[0] % 3) as usize];
    let s = common::decode(&data[1..], &T);
    // C13: no panic whatever the input; C07: every produced rendering is a fixed point
    if let Ok(p) = render(&s, from, "pep440") {
        let o = opep::parse(&p).unwrap_or_else(|| panic!("C07: PEP 440 rendering {p:?} of {s:?} is not PEP 440"));
        assert_eq!(opep::normal_form(&o), p, "C07: PEP 440 rendering {p:?} of {s:?} is not normalised");
        let p2 = render(&p, "pep440", "pep440").unwrap_or_else(|e| panic!("C07: {p:?} (rendering of {s:?}) is rejected: {e}"));
        assert_eq!(p2, p, "C07: PEP 440 rendering of {s:?} is not a fixed point");
    }
    if from == "pep440" {
        if let Ok(sv) = render(&s, from, "semver") {
            assert!(osem::parse(&sv).is_some(), "C07: SemVer rendering {sv:?} of {s:?} is not SemVer");
            let sv2 = render(&sv, "semver", "semver").unwrap_or_else(|e| panic!("C07: {sv:?} (rendering of {s:?}) is rejected: {e}"));
            assert_eq!(sv2, sv, "C07: SemVer rendering of PEP 440 {s:?} is not a fixed point");
        }
    } else {
        let _ = render(&s, from, "semver");
    }
});
