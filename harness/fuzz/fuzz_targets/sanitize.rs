#![no_main]
mod common;
use common::osan;
use libfuzzer_sys::fuzz_target;
use zerv::utils::sanitize::Sanitizer;

fuzz_target!(|data: &[u8]| {
    if data.len() < 2 {
        return;
    }
    let cfg = data[0];
    let m = data[1];
    let input = String::from_utf8_lossy(&data[2..]).into_owned();
    let sep = [Some('.'), Some('-'), Some('_'), None][(cfg & 3) as usize];
    let lowercase = cfg & 4 != 0;
    let keep_zeros = cfg & 8 != 0;
    let max_length = if cfg & 16 != 0 { Some((m % 40) as usize) } else { None };
    let sep_s = sep.map(|c| c.to_string());
    let z = Sanitizer::str(sep_s.as_deref(), lowercase, keep_zeros, max_length);
    let out = z.sanitize(&input);
    if let Some(ml) = max_length {
        assert!(out.chars().count() <= ml, "C16: {out:?} longer than {ml}");
    }
    if let Some(sep) = sep {
        osan::well_formed(&out, sep, lowercase, keep_zeros).unwrap_or_else(|e| panic!("C16: {input:?} -> {out:?}: {e}"));
        match max_length {
            None => assert_eq!(out, osan::model(&input, &sep.to_string(), lowercase, keep_zeros), "C16: contract mismatch for {input:?}"),
            Some(ml) => {
                let full = osan::model(&input, &sep.to_string(), lowercase, keep_zeros);
                if full.chars().count() <= ml {
                    assert_eq!(out, full, "C16: the contract output fits max_length={ml} but was shortened for {input:?}");
                }
                assert!(osan::bounded_ok(&out, &input, sep, lowercase, keep_zeros, ml), "C16: bounded output {out:?} not a prefix of the contract output for {input:?}")
            }
        }
    }
    assert_eq!(z.sanitize(&out), out, "C16: not idempotent on {input:?}");
    // integer sanitiser
    let u = Sanitizer::uint().sanitize(&input);
    let t = input.trim();
    assert!(u == osan::uint_model(t) || (t.len() != input.len() && u.is_empty()), "C16: uint({input:?}) = {u:?}");
});
