// Shared by the libFuzzer targets: the same independent oracles as the proptest sub-checks
// (included by path from the harness crate), and a tiny structured decoder.
#![allow(dead_code)]
#[path = "../../src/oracle/semver.rs"]
pub mod osem;
#[path = "../../src/oracle/pep440.rs"]
pub mod opep;
#[path = "../../src/oracle/sanitize.rs"]
pub mod osan;

/// bytes -> string over a grammar-relevant alphabet (so the fuzzer spends its time in the
/// grammar, not in UTF-8 validation); bytes >= table length fall through as raw chars
pub fn decode(data: &[u8], table: &[&str]) -> String {
    let mut s = String::new();
    for &b in data {
        let i = b as usize;
        if i < table.len() {
            s.push_str(table[i]);
        } else if b.is_ascii() && b != 0 {
            s.push(b as char);
        } else {
            s.push(char::from_u32(0x80 + (b as u32 & 0x7f)).unwrap_or('é'));
        }
    }
    s
}
