#![no_main]
mod common;
use clap::Parser;
use libfuzzer_sys::fuzz_target;
use zerv::cli::{FlowArgs, VersionArgs, run_flow_pipeline, run_version_pipeline};

const T: [&str; 74] = [
    "\u{1}", "--source=none", "--source=stdin", "--tag-version=", "--input-format=semver", "--input-format=pep440", "--output-format=zerv", "--output-format=pep440", "--output-template=", "--output-prefix=",
    "--schema=", "--schema-ron=", "--distance=", "--dirty", "--no-dirty", "--clean", "--bumped-branch=", "--bumped-commit-hash=", "--bumped-timestamp=", "--major=", "--minor=", "--patch=", "--epoch=", "--post=", "--dev=",
    "--pre-release-label=", "--pre-release-num=", "--custom=", "--core=", "--extra-core=", "--build=", "--bump-major", "--bump-minor=", "--bump-patch", "--bump-post=", "--bump-dev", "--bump-pre-release-num=", "--bump-epoch",
    "--bump-pre-release-label=", "--bump-core=", "--bump-extra-core=", "--bump-build=", "--no-bump-context", "--post-mode=", "--branch-rules=", "--hash-branch-len=",
    "1.2.3", "1.0.0-rc.1.post.2", "2!1.0a1", "standard", "calver", "standard-base-prerelease-post-dev-context", "alpha", "rc", "tag", "commit", "0", "1", "~1", "-1", "=", "4294967295", "4294967296", "18446744073709551615",
    "{{ major }}", "{{ hash_int(value=bumped_branch, length=10) }}", "(core:[var(Major),uint(7),str(\"x\")],extra_core:[var(Epoch),var(PreRelease),var(Post),var(Dev)],build:[var(ts(\"YYYY\"))])", "{\"a\":1}", "é", "aééééééé", "feature/x", "release/1", "none", "10",
];

fuzz_target!(|data: &[u8]| {
    if data.is_empty() {
        return;
    }
    let flow = data[0] & 1 == 1;
    let text = common::decode(&data[1..], &T);
    let mut argv: Vec<String> = vec![if flow { "flow".into() } else { "version".into() }];
    argv.extend(text.split('\u{1}').filter(|s| !s.is_empty()).map(String::from));
    if !argv.iter().any(|a| a.starts_with("--source")) {
        argv.push("--source=none".into());
    }
    // hermetic: never reach git from the fuzzer
    if argv.iter().any(|a| a.contains("git") || a.starts_with("-C") || a.starts_with("--directory")) {
        return;
    }
    let stdin = "(schema:(core:[var(Major),var(Minor),var(Patch)],extra_core:[var(Epoch),var(PreRelease),var(Post),var(Dev)],build:[var(BumpedBranch)]),vars:(major:Some(1),minor:Some(2),patch:Some(3),epoch:None,pre_release:None,post:None,dev:None,distance:Some(2),dirty:Some(false),bumped_branch:Some(\"main\"),bumped_commit_hash:None,bumped_timestamp:Some(1700000000),last_branch:None,last_commit_hash:None,last_timestamp:None,last_tag_version:None,custom:{}))";
    let use_stdin = argv.iter().any(|a| a == "--source=stdin");
    // C13: no panic
    if flow {
        if let Ok(a) = FlowArgs::try_parse_from(&argv) {
            let _ = run_flow_pipeline(a, use_stdin.then_some(stdin));
        }
    } else if let Ok(a) = VersionArgs::try_parse_from(&argv) {
        let _ = run_version_pipeline(a, use_stdin.then_some(stdin));
    }
});
