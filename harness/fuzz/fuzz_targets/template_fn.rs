#![no_main]
mod common;
use libfuzzer_sys::fuzz_target;
use zerv::cli::utils::template::Template;

const T: [&str; 60] = [
    "{{ ", " }}", "{% if ", " %}", "{% else %}", "{% endif %}", "hash(", "hash_int(", "prefix(", "prefix_if(", "sanitize(", "format_timestamp(", "value=", "length=", "prefix=", "format=",
    "preset=", "separator=", "max_length=", "lowercase=", "keep_zeros=", "allow_leading_zero=", ", ", ")", "\"", "true", "false", "0", "1", "3", "7", "10", "99999999999", "-1", "\"éééé\"", "\"a.00b\"",
    "\"%Q\"", "\"%Y-%m-%d\"", "\"%\"", "\"compact_date\"", "\"dotted\"", "\"uint\"", "\"-\"", "\"\"", "| upper", "| default(value=1)", "major", "custom", "bumped_branch", "semver", "pep440", "1e9", "18446744073709551615", "+", "/", "*", "~", "[", "]", ".",
];

fuzz_target!(|data: &[u8]| {
    let tpl = common::decode(data, &T);
    // excluded by construction: call nesting deeper than 6 (known finding F18 of C13: Tera's parse
    // time grows about 4x per level, so one such input would stall the whole campaign)
    let (mut depth, mut max) = (0i32, 0i32);
    for c in tpl.chars() {
        match c {
            '(' => { depth += 1; max = max.max(depth); }
            ')' => depth -= 1,
            _ => {}
        }
    }
    if max > 6 {
        return;
    }
    // C13/C15: hostile templates give an error or a value, never a panic
    let t = Template::<String>::new(tpl);
    let _ = t.render(None);
});
