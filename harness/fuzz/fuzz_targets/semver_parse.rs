#![no_main]
mod common;
use common::osem;
use libfuzzer_sys::fuzz_target;
use std::str::FromStr;
use zerv::version::SemVer;

const T: [&str; 20] = ["0", "1", "9", "10", "a", "Z", "-", ".", "+", "v", "alpha", "rc", "post", "dev", "epoch", "٣", "é", "00", "18446744073709551615", "18446744073709551616"];

fuzz_target!(|data: &[u8]| {
    let s = if data.first() == Some(&0xff) { String::from_utf8_lossy(&data[1..]).into_owned() } else { common::decode(data, &T) };
    let z = SemVer::from_str(&s);
    let o = osem::parse_v(&s);
    let without_v = s.strip_prefix('v').unwrap_or(&s);
    match (&z, &o) {
        (Ok(v), Some(_)) => assert_eq!(v.to_string(), without_v, "C08: accepted {s:?} but prints {:?}", v.to_string()),
        (Ok(v), None) => panic!("C08: accepted {s:?} (prints {:?}) which is not SemVer 2.0.0", v.to_string()),
        (Err(_), Some(sem)) => assert!(!(osem::all_numbers_fit_u64(sem) && osem::build_numbers_fit_u64(sem)), "C08: rejected valid SemVer {s:?}"),
        (Err(_), None) => {}
    }
    if let Ok(v) = z {
        // ordering laws on the parsed value (C10): reflexive, consistent with ==
        assert!(v == v.clone() && v.cmp(&v.clone()) == std::cmp::Ordering::Equal);
    }
});
