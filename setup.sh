#!/usr/bin/env bash
# MANIFEST.setup_cmd — offline cold build of everything the checks need.
set -u
cd "$(dirname "$0")"
export CARGO_NET_OFFLINE=true
./tools/build.sh || exit 1
echo "setup ok"
