#!/usr/bin/env bash
# C18 driver: python3-vt (tooling venv with hypothesis), wrapper imported from /repo/python
ROOT="$(cd "$(dirname "$0")/.." && pwd)"
export VERIF_ROOT="$ROOT" PYTHONDONTWRITEBYTECODE=1 PIP_NO_INDEX=1
exec timeout 3000 python3-vt "$ROOT/py/c18.py" "$@" </dev/null
