#!/usr/bin/env python3-vt
"""C18 — the Python API is a faithful wrapper of the CLI (DESIGN.md §6 C18).

Hypothesis differential test: zerv.<fn>(**kwargs) versus the equivalent command line built
independently here from the keyword names, run against the binary freshly built from /repo.
"""
import inspect, json, os, re, shutil, subprocess, sys, tempfile, time, hashlib

ROOT = os.environ.get("VERIF_ROOT", "/verif")
ZERV_BIN = os.environ.get("ZERV_BIN", os.path.join(ROOT, ".cache/target-repo/debug/zerv"))
sys.path.insert(0, "/repo/python")
os.environ.setdefault("TZ", "UTC")

from hypothesis import given, settings, seed, strategies as st, HealthCheck, Phase  # noqa: E402
import zerv  # noqa: E402

CURRENT_BIN = [ZERV_BIN]                        # swapped for the stand-in during fault injection
EXTRA_ENV = {}
zerv.find_zerv_bin = lambda: CURRENT_BIN[0]     # the wrapper resolves the name at call time
import zerv as _z                               # noqa: E402
_z.__dict__["find_zerv_bin"] = lambda: CURRENT_BIN[0]
FAKE_BIN = os.path.join(ROOT, "shim", "fakezerv")

ENV = {"PATH": "/usr/local/sbin:/usr/local/bin:/usr/sbin:/usr/bin:/sbin:/bin", "HOME": "/nonexistent", "LANG": "C", "TZ": "UTC",
       "GIT_CONFIG_GLOBAL": "/dev/null", "GIT_CONFIG_SYSTEM": "/dev/null", "PAGER": "cat"}

# ---------------------------------------------------------------------------------------
# capture what the wrapper really executes, and run it hermetically
CAPTURED = []
_real_run = subprocess.run
def _wrapped_run(cmd, *a, **kw):
    CAPTURED.append(list(cmd))
    kw.setdefault("env", dict(ENV, **EXTRA_ENV))
    kw.setdefault("cwd", "/")
    return _real_run(cmd, *a, **kw)
zerv.subprocess.run = _wrapped_run

def run_cli(argv, stdin=None):
    # no input => an empty stdin (never the caller's terminal/pipe): zerv reads stdin when it is not a tty
    # bytes, decoded here: a text-mode pipe would rewrite "\r" in zerv's output to "\n" in the reference too
    if stdin is None:
        r = _real_run([ZERV_BIN, *argv], stdin=subprocess.DEVNULL, capture_output=True, check=False, env=ENV, cwd="/")
    else:
        r = _real_run([ZERV_BIN, *argv], input=stdin.encode("utf-8"), capture_output=True, check=False, env=ENV, cwd="/")
    return subprocess.CompletedProcess(r.args, r.returncode, r.stdout.decode("utf-8", errors="replace"), r.stderr.decode("utf-8", errors="replace"))

# ---------------------------------------------------------------------------------------
# independent keyword -> long flag mapping: '_' -> '-', plus the three renamed ones
RENAMES = {"repo_path": "directory"}
def long_flag(kw):
    return "--" + RENAMES.get(kw, kw).replace("_", "-")

def help_options(sub):
    out = run_cli([sub, "--help"]).stdout
    opts = set()
    for line in out.splitlines():
        m = re.match(r"^\s{2,}(?:-\w, )?--([a-z0-9-]+)", line)
        if m:
            opts.add(m.group(1))
    return opts

FUNCS = {"version": zerv.version, "flow": zerv.flow, "check": zerv.check, "render": zerv.render}
def keywords(fn):
    return [p.name for p in inspect.signature(fn).parameters.values() if p.kind == p.KEYWORD_ONLY]

def equivalent_argv(sub, positional, kwargs):
    argv = [sub] + list(positional)
    for k, v in kwargs.items():
        if k == "stdin" or v is None or v is False:
            continue
        argv.append(long_flag(k))
        if v is not True:
            argv.append(str(v))
    return argv

NOW_RE = re.compile(r"\b(1[789]\d{8})\b")
def mask(s):
    now = int(time.time())
    return NOW_RE.sub(lambda m: "<now>" if abs(int(m.group(1)) - now) <= 5 else m.group(1), s)

# ---------------------------------------------------------------------------------------
STATS = {"evaluations": 0, "nontrivial": set(), "labels": {}, "samples": []}
FAIL = {"case": None, "msg": None}
COUNTING = [True]

class Violation(AssertionError):
    pass

def label(l):
    if COUNTING[0]:
        STATS["labels"][l] = STATS["labels"].get(l, 0) + 1

def check_call(fname, positional, kwargs):
    """the whole oracle for one call"""
    fn = FUNCS[fname]
    if COUNTING[0]:
        STATS["evaluations"] += 1
    stdin = kwargs.get("stdin")
    argv = equivalent_argv(fname, positional, kwargs)
    expected = run_cli(argv, stdin=stdin)
    CAPTURED.clear()
    try:
        got = fn(*positional, **kwargs)
        raised = None
    except RuntimeError as e:
        got, raised = None, e
    except Exception as e:  # any other exception type is not the documented failure mode
        raise Violation(f"{fname}({positional}, {kwargs}) raised {type(e).__name__}: {e}")
    # (a wrapper that answers without spawning a process is judged by the value it returns;
    #  stale answers are the business of the stateful sub-check below)
    wrapper_argv = CAPTURED[-1][1:] if CAPTURED else None
    # every flag the wrapper passes is an option of the sub-command
    opts = HELP[fname]
    if expected.returncode != 0:
        if raised is None:
            raise Violation(f"command line {argv} fails (exit {expected.returncode}: {expected.stderr.strip()[:200]}) but {fname}(**{kwargs}) returned {got!r}")
        label("failing-command-raises")
    else:
        if raised is not None:
            raise Violation(f"command line {argv} succeeds with {expected.stdout.strip()!r} but {fname}(**{kwargs}) raised: {str(raised)[:300]}")
        if mask(got) != mask(expected.stdout.strip()):
            raise Violation(f"{fname}(**{kwargs}) returned {got!r}; the equivalent command line {argv} prints {expected.stdout.strip()!r}")
        if got != got.strip():
            raise Violation(f"{fname} returned unstripped text {got!r}")
    # None / False arguments add nothing: argv identical to the call without them
    pruned = {k: v for k, v in kwargs.items() if v is not None and v is not False}
    if pruned != kwargs and wrapper_argv is not None:
        CAPTURED.clear()
        try:
            fn(*positional, **pruned)
        except RuntimeError:
            pass
        if CAPTURED and CAPTURED[-1][1:] != wrapper_argv:
            raise Violation(f"None/False keywords change the command line: {wrapper_argv} vs {CAPTURED[-1][1:]}")
    nontrivial = expected.returncode == 0 and any(v is not None and v is not False for k, v in kwargs.items() if k not in BASE.get(fname, {}))
    if COUNTING[0]:
        if nontrivial:
            STATS["nontrivial"].add(hashlib.sha1(json.dumps([fname, positional, kwargs], sort_keys=True, default=str).encode()).hexdigest())
        if len(STATS["samples"]) < 8 and nontrivial and STATS["evaluations"] % 7 == 0:
            STATS["samples"].append({"call": f"zerv.{fname}({', '.join(map(repr, positional))}{', ' if positional else ''}{', '.join(f'{k}={v!r}' for k, v in kwargs.items() if k != 'stdin')})", "returned": got, "argv": wrapper_argv})
    return got

def check_fake(fname, positional, kwargs, mode, out):
    """fault injection on the child process: a stand-in binary prints `out`, then exits with a
    status or dies by a signal; the wrapper returns the stripped text iff the status is 0"""
    fn = FUNCS[fname]
    if COUNTING[0]:
        STATS["evaluations"] += 1
    # a successful zerv may still have written log lines to stderr (swallowed git errors are logged
    # at ERROR level): with status 0 the text on stdout is the result, whatever stderr holds.
    # Which stderr a successful stand-in writes is derived from the text it prints, so that a
    # replayed case is the same case.
    noisy = ("", "\x1b[2m2026-01-01T00:00:00.000000Z\x1b[0m \x1b[31mERROR\x1b[0m Git command failed: git rev-list -n 1 v3.0.0 - fatal: ambiguous argument\n", "Error: something\n", " WARN shallow clone detected\n")
    fenv = {"FAKE_MODE": mode, "FAKE_OUT": out, "FAKE_ERR": "boom\n" if mode != "exit:0" else noisy[len(out) % len(noisy)]}
    ref = _real_run([FAKE_BIN], stdin=subprocess.DEVNULL, capture_output=True, text=True, check=False, env=dict(ENV, **fenv), cwd="/")
    CURRENT_BIN[0] = FAKE_BIN
    EXTRA_ENV.update(fenv)
    try:
        try:
            got, raised = fn(*positional, **kwargs), None
        except RuntimeError as e:
            got, raised = None, e
        except Exception as e:
            raise Violation(f"{fname}() raised {type(e).__name__} when the zerv process ends with {mode}: {e}")
    finally:
        CURRENT_BIN[0] = ZERV_BIN
        EXTRA_ENV.clear()
    how = f"the zerv process printed {out!r} and ended with {mode} (returncode {ref.returncode})"
    if ref.returncode == 0:
        if raised is not None:
            raise Violation(f"{how}, but {fname}() raised: {str(raised)[:200]}")
        if got != out.strip():
            raise Violation(f"{how}, but {fname}() returned {got!r} instead of the stripped stdout {out.strip()!r}")
    else:
        if raised is None:
            raise Violation(f"{how}: a failing command must raise, but {fname}() returned {got!r}")
    label("abnormal-exit:" + ("status-0" if ref.returncode == 0 else "signal" if ref.returncode < 0 else "status-nonzero"))
    if COUNTING[0] and ref.returncode != 0:
        STATS["nontrivial"].add(hashlib.sha1(json.dumps([fname, mode, out]).encode()).hexdigest())

def guarded_fake(fname, positional, kwargs, mode, out):
    try:
        return check_fake(fname, positional, kwargs, mode, out)
    except Violation as e:
        COUNTING[0] = False
        FAIL["case"] = {"function": fname, "positional": list(positional), "kwargs": kwargs, "fake": {"mode": mode, "out": out}}
        FAIL["msg"] = str(e)
        raise

def guarded(fname, positional, kwargs):
    try:
        return check_call(fname, positional, kwargs)
    except Violation as e:
        COUNTING[0] = False
        FAIL["case"] = {"function": fname, "positional": list(positional), "kwargs": kwargs}
        FAIL["msg"] = str(e)
        raise

# ---------------------------------------------------------------------------------------
# value strategies per keyword
PRESETS_STD = ["standard", "standard-no-context", "standard-base", "standard-base-prerelease", "standard-base-prerelease-post", "standard-base-prerelease-post-dev",
               "standard-base-context", "standard-base-prerelease-context", "standard-base-prerelease-post-context", "standard-base-prerelease-post-dev-context", "standard-context"]
PRESETS = PRESETS_STD + [p.replace("standard", "calver") for p in PRESETS_STD]
text = st.one_of(st.sampled_from(["main", "feature/x", "release/2", "fé/ü", "007", "a b", "x+y@z"]), st.text(alphabet="abcXYZ019/._é", min_size=1, max_size=10)).filter(lambda s: not s.startswith("-"))
u32 = st.one_of(st.integers(0, 20), st.sampled_from([0, 1, 99, 65536, 4294967295]))
VALUES = {
    "source": st.sampled_from(["none", "stdin"]),
    "input_format": st.sampled_from(["auto", "semver", "pep440"]),
    "output_format": st.sampled_from(["semver", "pep440", "zerv"]),
    # the last value overflows zerv's stack (known finding F17 of C13): the process dies by SIGABRT, the wrapper must raise
    "output_template": st.sampled_from(["{{ semver }}", "v{{ major }}.{{ minor }}", "{{ pep440 }}+x", "  {{ major }}  ", "{{ bumped_branch }}", "{{ major }}\r{{ minor }}", "{{ " + "(" * 30000 + "major" + ")" * 30000 + " }}"]),
    # carriage returns inside the output: text-mode pipes rewrite them to "\n" (F26)
    "output_prefix": st.sampled_from(["v", "release-", "é", "a\rb", "x\r\ny", "\rv"]),
    "schema": st.sampled_from(PRESETS),
    "schema_ron": st.sampled_from(['(core:[var(Major),var(Minor)],extra_core:[],build:[])', '(core:[var(Major)],extra_core:[var(PreRelease)],build:[str("x")])']),
    "tag_version": st.sampled_from(["1.2.3", "v2.0.0", "1.0.0-rc.1", "0.1.0-alpha.2.post.3", "10.20.30"]),
    "distance": u32, "dirty": st.just(True), "no_dirty": st.just(True), "clean": st.just(True),
    "bumped_branch": text, "bumped_commit_hash": st.sampled_from(["g1234567890abcdef", "abc", "aééééééé"]), "bumped_timestamp": st.integers(0, 4102444800),
    "major": u32, "minor": u32, "patch": u32, "epoch": u32, "post": u32, "dev": u32,
    "pre_release_label": st.sampled_from(["alpha", "beta", "rc"]), "pre_release_num": u32,
    "custom": st.sampled_from(['{"a":1}', '{"build_id":"x y","n":{"m":true}}']),
    "core": st.sampled_from(["0=5", "~1=7", "-1=2"]), "extra_core": st.sampled_from(["0=5"]), "build": st.sampled_from(["0=5", "0=x"]),
    "bump_major": u32, "bump_minor": u32, "bump_patch": u32, "bump_post": u32, "bump_dev": u32, "bump_pre_release_num": u32, "bump_epoch": u32,
    "bump_pre_release_label": st.sampled_from(["alpha", "beta", "rc"]),
    "bump_core": st.sampled_from(["0", "0=2", "~1"]), "bump_extra_core": st.sampled_from(["0", "0=3"]), "bump_build": st.sampled_from(["0=2"]),
    "bump_context": st.just(True), "no_bump_context": st.just(True),
    "verbose": st.just(True),
    "post_mode": st.sampled_from(["tag", "commit"]),
    "branch_rules": st.sampled_from(['[(pattern: "x/*", pre_release_label: rc, post_mode: tag), (pattern: "*", pre_release_label: alpha, post_mode: commit)]', '[(pattern: "main", pre_release_label: beta, pre_release_num: 4, post_mode: commit)]']),
    "hash_branch_len": st.integers(1, 9),
    "format": st.sampled_from(["semver", "pep440"]),
}
BASE = {
    "version": {"source": "none", "tag_version": "1.2.3"},
    "flow": {"source": "none", "tag_version": "1.2.3", "bumped_branch": "feature/x", "distance": 2},
    "check": {}, "render": {},
}
POSITIONAL = {"check": st.sampled_from(["1.2.3", "1.0.0-rc.1", "1.0a1", "v2.0.0", "not-a-version", "1.0.post1"]), "render": st.sampled_from(["1.2.3", "1.0.0-rc.1+b.5", "2!1.0a1.post2", "v2.0.0", "nope"])}

CHILD = r"""
import json, sys
sys.path.insert(0, "/repo/python")
import zerv
cfg = json.loads(sys.argv[1])
zerv.find_zerv_bin = lambda: cfg["bin"]
try:
    print("OK " + json.dumps(getattr(zerv, cfg["fn"])(**cfg["kwargs"])))
except RuntimeError as e:
    print("RAISE " + json.dumps(str(e)[:300]))
"""

def check_inherited(fname, kwargs, cwd, doc):
    """The interpreter's own stdin is a pipe that carries `doc` (as in `zerv version --output-format zerv |
    python script.py`): a call without stdin= hands that stdin to zerv, exactly as the command line
    `zerv <sub> ...` started from the same place would read it."""
    STATS["evaluations"] += 1
    label("inherited-stdin")
    argv = equivalent_argv(fname, [], kwargs)
    expected = _real_run([ZERV_BIN, *argv], input=doc, capture_output=True, text=True, check=False, env=ENV, cwd=cwd)
    child = _real_run([sys.executable, "-c", CHILD, json.dumps({"bin": ZERV_BIN, "fn": fname, "kwargs": kwargs})], input=doc, capture_output=True, text=True, check=False, env=ENV, cwd=cwd)
    got = child.stdout.strip()
    if not (got.startswith("OK ") or got.startswith("RAISE ")):
        raise Violation(f"zerv.{fname}(**{kwargs!r}) in an interpreter whose stdin is a pipe: the interpreter printed {child.stdout!r} / {child.stderr[-300:]!r}")
    STATS["nontrivial"].add(hashlib.sha1(json.dumps(["inherited", fname, kwargs, cwd == "/", doc[:40]], sort_keys=True).encode()).hexdigest())
    if expected.returncode == 0:
        want = expected.stdout.strip()
        if got.startswith("RAISE "):
            raise Violation(f"interpreter stdin = a piped document, cwd {'/' if cwd == '/' else '<repository>'}: the command line {argv} succeeds with {mask(want)!r} but zerv.{fname}(**{kwargs!r}) raised {got[6:]}")
        have = json.loads(got[3:])
        if mask(have) != mask(want):
            raise Violation(f"interpreter stdin = a piped document, cwd {'/' if cwd == '/' else '<repository>'}: the command line {argv} prints {mask(want)!r}; zerv.{fname}(**{kwargs!r}) returned {mask(have)!r}")
    elif got.startswith("OK "):
        raise Violation(f"interpreter stdin = a piped document: the command line {argv} fails (exit {expected.returncode}) but zerv.{fname}(**{kwargs!r}) returned {got[3:]}")

def kwargs_strategy(fname, subset):
    kws = [k for k in keywords(FUNCS[fname]) if k not in ("stdin", "repo_path")]
    if subset is not None:
        kws = subset
    fixed = st.fixed_dictionaries({}, optional={k: st.one_of(VALUES[k], st.none(), st.just(False) if k in ("dirty", "no_dirty", "clean", "bump_context", "no_bump_context", "verbose") else st.none()) for k in kws})
    return fixed

def run_property(tier, seed_value):
    max_subsets = 150 if tier == "quick" else 3000
    violations = []

    # (1) every keyword of every function individually (finite enumeration)
    for fname, fn in FUNCS.items():
        for kw in keywords(fn):
            if kw in ("stdin", "repo_path"):
                continue
            # deterministic representative values: draw from the strategy with a fixed-seed given()
            @seed(seed_value)
            @settings(max_examples=3 if tier == "quick" else 12, database=None, deadline=None, phases=[Phase.generate], suppress_health_check=list(HealthCheck))
            @given(VALUES[kw], POSITIONAL.get(fname, st.just(None)))
            def one(v, pos):
                kwargs = dict(BASE[fname])
                kwargs[kw] = v
                if kw == "source" and v == "stdin":
                    kwargs.pop("tag_version", None); kwargs.pop("bumped_branch", None); kwargs.pop("distance", None)
                    kwargs["stdin"] = STDIN_OBJECT
                guarded(fname, [pos] if pos is not None else [], kwargs)
            try:
                one()
                label(f"keyword:{fname}.{kw}")
            except Violation:
                violations.append(dict(FAIL)); COUNTING[0] = True
            except Exception as e:
                if FAIL["case"]:
                    violations.append(dict(FAIL)); COUNTING[0] = True; FAIL["case"] = None
                else:
                    raise
    # stdin / repo_path keywords
    try:
        guarded("version", [], {"source": "stdin", "stdin": STDIN_OBJECT, "output_format": "pep440"})
        guarded("flow", [], {"source": "stdin", "stdin": STDIN_OBJECT})
        guarded("version", [], {"repo_path": GIT_REPO})
        guarded("flow", [], {"repo_path": GIT_REPO, "source": "git"})
        guarded("version", [], {"repo_path": "/nonexistent"})
        # every VCS override at once on the git source: the repository is still consulted (tagged
        # commit's hash and time, and it must exist at all)
        FULL = {"tag_version": "2.0.0", "distance": 3, "dirty": True, "bumped_branch": "main", "bumped_commit_hash": "gabc1234", "bumped_timestamp": 1700000000}
        for extra in ({"output_format": "zerv"}, {"output_template": "{{ last_commit_hash }}|{{ last_timestamp }}|{{ semver }}"}, {}):
            guarded("version", [], dict(FULL, repo_path=GIT_REPO, **extra))
            guarded("version", [], dict(FULL, repo_path=os.path.join(TMP, "plain"), **extra))
        CLEAN = {"tag_version": "2.0.0", "clean": True, "bumped_branch": "main", "bumped_commit_hash": "gabc1234", "bumped_timestamp": 1700000000}
        guarded("version", [], dict(CLEAN, repo_path=GIT_REPO, output_format="zerv"))
        guarded("version", [], dict(CLEAN, repo_path=os.path.join(TMP, "plain")))
        guarded("flow", [], dict(FULL, repo_path=GIT_REPO, output_format="zerv"))
        label("all-vcs-overrides-at-once")
        # path spellings: the wrapper must hand the path to -C as it is (the OS resolves `..` through
        # symlinks physically; a lexical clean-up names a different directory)
        for path in PATH_SPELLINGS:
            guarded("version", [], {"repo_path": path})
            guarded("flow", [], {"repo_path": path, "source": "git"})
            label("repo_path-spelling")
        label("keyword:stdin/repo_path")
    except Violation:
        violations.append(dict(FAIL)); COUNTING[0] = True

    # (2) random subsets of keywords (shrinks towards fewer keywords)
    for fname in FUNCS:
        share = {"version": 0.5, "flow": 0.3, "check": 0.1, "render": 0.1}[fname]
        @seed(seed_value + 1)
        @settings(max_examples=max(5, int(max_subsets * share)), database=None, deadline=None, suppress_health_check=list(HealthCheck))
        @given(kwargs_strategy(fname, None), POSITIONAL.get(fname, st.just(None)))
        def subsets(kw, pos):
            kwargs = dict(BASE[fname]); kwargs.update(kw)
            if kwargs.get("source") == "stdin":
                kwargs["stdin"] = STDIN_OBJECT
                kwargs.pop("tag_version", None)
            guarded(fname, [pos] if pos is not None else [], kwargs)
        try:
            subsets()
        except Violation:
            violations.append(dict(FAIL)); COUNTING[0] = True
        except Exception:
            if FAIL["case"]:
                violations.append(dict(FAIL)); COUNTING[0] = True; FAIL["case"] = None
            else:
                raise

    # (2b) stateful: the same call repeated while the repository changes must follow the command line
    # (calls with stdin that fail or succeed in between: nothing of them may leak into the next call)
    OPS = ["commit", "tag", "dirty", "clean", "call-version", "call-flow", "call-version-zerv", "call-stdin-fails", "call-stdin-ok", "call-flow-stdin-fails", "call-render-fails"]
    @seed(seed_value + 2)
    @settings(max_examples=20 if tier == "quick" else 250, database=None, deadline=None, suppress_health_check=list(HealthCheck))
    @given(st.lists(st.sampled_from(OPS), min_size=3, max_size=9))
    def stateful(ops):
        repo = tempfile.mkdtemp(prefix="st-", dir=TMP)
        genv = dict(ENV, GIT_AUTHOR_NAME="t", GIT_AUTHOR_EMAIL="t@e", GIT_COMMITTER_NAME="t", GIT_COMMITTER_EMAIL="t@e")
        def git(*a, date=None):
            e = dict(genv)
            if date: e["GIT_AUTHOR_DATE"], e["GIT_COMMITTER_DATE"] = f"{max(1, date - 40000000)} +0530", f"{date} +0000"
            _real_run(["git", *a], cwd=repo, env=e, check=True, capture_output=True, stdin=subprocess.DEVNULL)
        git("init", "-q", "-b", "main", "."); git("commit", "-q", "--allow-empty", "-m", "c0", date=1600000000); git("tag", "v0.1.0")
        n = [1]
        try:
            for op in ops + ["call-version", "call-flow"]:
                if op == "commit":
                    git("commit", "-q", "--allow-empty", "-m", f"c{n[0]}", date=1600000000 + 1000 * n[0]); n[0] += 1
                elif op == "tag":
                    try: git("tag", f"v0.{n[0]}.0")
                    except subprocess.CalledProcessError: pass
                elif op == "dirty":
                    open(os.path.join(repo, "untracked.txt"), "w").write("x")
                elif op == "clean":
                    try: os.remove(os.path.join(repo, "untracked.txt"))
                    except FileNotFoundError: pass
                elif op == "call-version":
                    guarded("version", [], {"repo_path": repo})
                elif op == "call-version-zerv":
                    guarded("version", [], {"repo_path": repo, "output_format": "zerv"})
                elif op == "call-stdin-fails":
                    guarded("version", [], {"source": "stdin", "stdin": STDIN_OBJECT, "schema": "standard", "schema_ron": "(core:[],extra_core:[],build:[])"})
                elif op == "call-stdin-ok":
                    guarded("version", [], {"source": "stdin", "stdin": STDIN_OBJECT, "output_format": "pep440"})
                elif op == "call-flow-stdin-fails":
                    guarded("flow", [], {"source": "stdin", "stdin": "this is not RON"})
                elif op == "call-render-fails":
                    guarded("render", ["not a version"], {})
                else:
                    guarded("flow", [], {"repo_path": repo, "post_mode": "commit"})
        finally:
            shutil.rmtree(repo, ignore_errors=True)
    try:
        stateful()
        label("stateful-sequences")
    except Violation:
        violations.append(dict(FAIL)); COUNTING[0] = True
    except Exception:
        if FAIL["case"]:
            violations.append(dict(FAIL)); COUNTING[0] = True; FAIL["case"] = None
        else:
            raise

    # (2c) fault injection on the child process: exit statuses 0..255 and deaths by signal
    modes = st.one_of(st.integers(0, 255).map(lambda n: f"exit:{n}"), st.sampled_from([1, 2, 3, 6, 9, 11, 13, 15]).map(lambda n: f"sig:{n}"), st.just("exit:0"))
    @seed(seed_value + 3)
    @settings(max_examples=60 if tier == "quick" else 1200, database=None, deadline=None, suppress_health_check=list(HealthCheck))
    @given(st.sampled_from(sorted(FUNCS)), modes, st.sampled_from(["", "1.2.3\n", "  1.2  \n\n", "partial out", "é\n"]))
    def abnormal(fname, mode, out):
        pos = ["1.2.3"] if fname in ("check", "render") else []
        guarded_fake(fname, pos, dict(BASE[fname]), mode, out)
    try:
        abnormal()
        # the signals always, whatever the draw
        for fname in sorted(FUNCS):
            for mode in ("sig:6", "sig:9", "sig:15", "exit:1", "exit:0"):
                guarded_fake(fname, ["1.2.3"] if fname in ("check", "render") else [], dict(BASE[fname]), mode, "1.2.3\n")
            # success with an ERROR log line on stderr, and success with nothing / only white space on stdout
            for out in ("1.2.3-rc.1+b\n", "", "\n"):
                guarded_fake(fname, ["1.2.3"] if fname in ("check", "render") else [], dict(BASE[fname]), "exit:0", out)
    except Violation:
        violations.append(dict(FAIL)); COUNTING[0] = True
    except Exception:
        if FAIL["case"]:
            violations.append(dict(FAIL)); COUNTING[0] = True; FAIL["case"] = None
        else:
            raise

    # (3) every long option of the clap definitions is reachable from a keyword (or a documented exception)
    EXC = {"help", "llm-help"}
    EXC_PER = {"version": {"verbose"}, "render": {"verbose"}, "check": set(), "flow": set()}
    for fname, fn in FUNCS.items():
        reachable = {long_flag(k)[2:] for k in keywords(fn)}
        STATS["evaluations"] += 1
        for opt in sorted(HELP[fname]):
            if opt not in reachable and opt not in EXC and opt not in EXC_PER[fname]:
                violations.append({"case": {"function": fname, "positional": [], "kwargs": {}, "missing_option": opt}, "msg": f"`zerv {fname}` has option --{opt} that no keyword of zerv.{fname}() reaches"})
        for k in keywords(fn):
            if k != "stdin" and long_flag(k)[2:] not in HELP[fname]:
                violations.append({"case": {"function": fname, "positional": [], "kwargs": {k: None}, "unknown_flag": long_flag(k)}, "msg": f"keyword {k} of zerv.{fname}() maps to {long_flag(k)}, which `zerv {fname} --help` does not list"})
    # (4) the interpreter's own stdin: piped document / empty pipe / garbage, outside and inside a repository
    docs = [STDIN_OBJECT, "", "not a zerv document\n"]
    kws = [{}, {"output_format": "zerv"}, {"output_format": "pep440"}, {"schema": "standard-base-prerelease-post"}, {"source": "stdin"}, {"source": "git"}, {"source": "none", "tag_version": "1.2.3"}, {"input_format": "semver"}]
    for fname in ("version", "flow"):
        for kw in kws if tier != "quick" else kws[:6]:
            for cwd in ("/", GIT_REPO):
                for doc in docs:
                    try:
                        check_inherited(fname, kw, cwd, doc)
                    except Violation as e:
                        violations.append({"case": {"function": fname, "positional": [], "kwargs": kw, "inherited": {"cwd": "repo" if cwd == GIT_REPO else "/", "doc": doc}}, "msg": str(e)})
                        break
    return violations

def setup_fixtures():
    global STDIN_OBJECT, GIT_REPO, HELP, TMP, PATH_SPELLINGS
    HELP = {s: help_options(s) for s in FUNCS}
    # a fixture object that does not depend on any option name of the binary
    STDIN_OBJECT = """(
    schema: (core: [var(Major), var(Minor), var(Patch)], extra_core: [var(Epoch), var(PreRelease), var(Post)], build: [var(BumpedBranch), var(Distance)]),
    vars: (major: Some(3), minor: Some(4), patch: Some(5), epoch: None, pre_release: Some((label: Beta, number: Some(2))), post: None, dev: None,
           distance: Some(4), dirty: Some(false), bumped_branch: Some("dev/é"), bumped_commit_hash: None, bumped_timestamp: Some(1700000000),
           last_branch: None, last_commit_hash: None, last_timestamp: None, last_tag_version: Some("3.4.5-beta.2"), custom: {}),
)"""
    TMP = tempfile.mkdtemp(prefix="c18-", dir=os.path.join(ROOT, ".cache"))
    GIT_REPO = os.path.join(TMP, "repo")
    os.makedirs(GIT_REPO)
    genv = dict(ENV, GIT_AUTHOR_NAME="t", GIT_AUTHOR_EMAIL="t@e", GIT_COMMITTER_NAME="t", GIT_COMMITTER_EMAIL="t@e", GIT_AUTHOR_DATE="1500000000 +0530", GIT_COMMITTER_DATE="1600000000 +0000")
    for cmd in (["git", "init", "-q", "-b", "main", "."], ["git", "commit", "-q", "--allow-empty", "-m", "c0"], ["git", "tag", "v1.4.0"], ["git", "commit", "-q", "--allow-empty", "-m", "c1"]):
        _real_run(cmd, cwd=GIT_REPO, env=genv, check=True, capture_output=True)
    # a second repository reached through a symlink: <TMP>/links/out -> <TMP>/releases/app/sub, so
    # "<TMP>/links/out/.." is physically <TMP>/releases/app (a repository) and lexically <TMP>/links (none);
    # <TMP>/nested/repo2link -> GIT_REPO/.. style links the other way round
    repo_b = os.path.join(TMP, "releases", "app")
    os.makedirs(os.path.join(repo_b, "sub"))
    for cmd in (["git", "init", "-q", "-b", "main", "."], ["git", "commit", "-q", "--allow-empty", "-m", "b0"], ["git", "tag", "v2.5.0"]):
        _real_run(cmd, cwd=repo_b, env=genv, check=True, capture_output=True)
    os.makedirs(os.path.join(TMP, "links"))
    os.symlink(os.path.join(repo_b, "sub"), os.path.join(TMP, "links", "out"))
    os.makedirs(os.path.join(TMP, "plain", "dir"))
    os.symlink(os.path.join(TMP, "plain", "dir"), os.path.join(TMP, "links", "away"))   # links/away/.. is <TMP>/plain: no repository
    os.symlink(GIT_REPO, os.path.join(TMP, "links", "repo"))
    # a repository with a tracked file named exactly like its version tag: `git rev-list -n 1 v3.0.0` is
    # ambiguous there, zerv logs the swallowed git errors on stderr and still prints a version with status 0
    repo_c = os.path.join(TMP, "notes")
    os.makedirs(repo_c)
    for cmd in (["git", "init", "-q", "-b", "main", "."],):
        _real_run(cmd, cwd=repo_c, env=genv, check=True, capture_output=True)
    open(os.path.join(repo_c, "v3.0.0"), "w").write("release notes\n")
    for cmd in (["git", "add", "v3.0.0"], ["git", "commit", "-q", "-m", "notes"], ["git", "tag", "v3.0.0"], ["git", "commit", "-q", "--allow-empty", "-m", "next"]):
        _real_run(cmd, cwd=repo_c, env=genv, check=True, capture_output=True)
    PATH_SPELLINGS = [
        GIT_REPO + "/", GIT_REPO + "/.", GIT_REPO + "//", os.path.join(TMP, ".", "repo"), os.path.join(repo_b, "sub", ".."), os.path.join(repo_b, "sub"),
        os.path.join(TMP, "links", "out", ".."), os.path.join(TMP, "links", "out"), os.path.join(TMP, "links", "away", ".."), os.path.join(TMP, "links", "repo"),
        os.path.join(TMP, "links", "repo", "..", "repo"), GIT_REPO.lstrip("/"), "./" + GIT_REPO.lstrip("/"), os.path.join(TMP, "plain"), "", repo_c,
    ]

def main():
    args = sys.argv[1:]
    tier = os.environ.get("VERIF_TIER", "quick")
    replay = None
    i = 0
    while i < len(args):
        if args[i] in ("quick", "thorough"): tier = args[i]
        elif args[i] == "--replay": i += 1; replay = args[i]
        elif args[i] == "--seed": i += 1; os.environ["VERIF_SEED"] = args[i]
        i += 1
    seed_value = int(os.environ.get("VERIF_SEED", "0") or 0)
    t0 = time.time()
    os.makedirs(os.path.join(ROOT, ".cache"), exist_ok=True)
    setup_fixtures()
    try:
        if replay:
            d = json.load(open(replay))
            c = d["case"]
            try:
                if "missing_option" in c or "unknown_flag" in c:
                    v = [x for x in run_property("quick", seed_value) if x["case"] == c]
                    if v: raise Violation(v[0]["msg"])
                elif "fake" in c:
                    check_fake(c["function"], c["positional"], c["kwargs"], c["fake"]["mode"], c["fake"]["out"])
                elif "inherited" in c:
                    check_inherited(c["function"], c["kwargs"], GIT_REPO if c["inherited"]["cwd"] == "repo" else "/", c["inherited"]["doc"])
                else:
                    check_call(c["function"], c["positional"], c["kwargs"])
                print(f"replay {replay}: property holds on this case"); return 0
            except Violation as e:
                print(f"VIOLATION property=C18 replay={replay}\n  {e}"); return 1
        # committed regression cases first
        regress = 0
        rdir = os.path.join(ROOT, "regress", "C18")
        violations = []
        if os.path.isdir(rdir):
            for f in sorted(os.listdir(rdir)):
                if f.endswith(".json"):
                    c = json.load(open(os.path.join(rdir, f)))["case"]
                    regress += 1
                    try:
                        if "fake" in c:
                            check_fake(c["function"], c["positional"], c["kwargs"], c["fake"]["mode"], c["fake"]["out"])
                        else:
                            check_call(c["function"], c["positional"], c["kwargs"])
                    except Violation as e:
                        print(f"VIOLATION property=C18 replay={os.path.join(rdir, f)}\n  {e}")
                        violations.append({"case": c, "msg": str(e), "path": os.path.join(rdir, f)})
        found = run_property(tier, seed_value)
        os.makedirs(os.path.join(ROOT, "replays", "C18"), exist_ok=True)
        for v in found:
            body = json.dumps({"property": "C18", "sub_check": "python-wrapper", "case": v["case"], "message": v["msg"], "seed": seed_value, "tier": tier}, indent=1, default=str, ensure_ascii=False)
            path = os.path.join(ROOT, "replays", "C18", "python-wrapper-" + hashlib.sha1(body.encode()).hexdigest()[:12] + ".json")
            open(path, "w").write(body)
            print(f"VIOLATION property=C18 replay={path}\n  {v['msg']}")
            violations.append(v)
        ev = {
            "property_id": "C18", "tier": tier, "seed": seed_value, "level": "exploration",
            "coverage": {
                "evaluations": STATS["evaluations"] + regress,
                "distinct_nontrivial": len(STATS["nontrivial"]),
                "rule": "cases = calls zerv.version/flow/check/render(**kwargs): every keyword individually with values from a per-keyword strategy (finite: each keyword of the four functions) and Hypothesis-generated random subsets of keywords incl. None/False values; stateful sequences (commit / tag / dirty / clean interleaved with the same version/flow call on one repository in one Python process); fault injection on the child process (a stand-in binary that prints text and then exits with status 0..255 or dies by signal 1/2/3/6/9/11/13/15: the call returns the stripped text iff the status is 0, raises RuntimeError otherwise; one real case: a template that overflows zerv's stack); plus the option-parity table (every long option in `zerv <sub> --help` reachable from a keyword, every keyword's flag listed in --help). Oracle (differential): the equivalent command line built independently from the keyword names ('_'->'-', repo_path->--directory) and run against the freshly built binary: same stripped stdout, RuntimeError iff the command fails, None/False keywords leave the executed argv unchanged. Non-trivial = call with >= 1 non-None keyword beyond the base arguments whose command line succeeds; distinct = distinct (function, arguments).",
                "samples": STATS["samples"][:8] or [{"note": "no sample"}],
                "labels": STATS["labels"],
                "keywords_covered": sum(1 for k in STATS["labels"] if k.startswith("keyword:")),
                "regress_replayed": regress,
            },
            "assumptions": ["the wrapper is exercised from /repo/python with find_zerv_bin pointed at the binary built from /repo (packaging via maturin/PyO3 is out of scope)", "10-digit numbers within 5 s of the wall clock are masked (dirty/flow dev timestamp)"],
            "wall_s": round(time.time() - t0, 2),
            "violations": len(violations),
        }
        os.makedirs(os.path.join(ROOT, "evidence"), exist_ok=True)
        json.dump(ev, open(os.path.join(ROOT, "evidence", "C18.json"), "w"), indent=1, default=str, ensure_ascii=False)
        print(f"C18 {tier}: {ev['coverage']['evaluations']} evaluations, {ev['coverage']['distinct_nontrivial']} distinct non-trivial, {len(violations)} violation(s), {ev['wall_s']}s")
        return 1 if violations else 0
    finally:
        shutil.rmtree(TMP, ignore_errors=True)

if __name__ == "__main__":
    try:
        code = main()
    except Exception:  # harness trouble is never a verdict
        import traceback
        traceback.print_exc()
        print("INFRA: C18 harness error - inconclusive")
        code = 2
    sys.exit(code)
