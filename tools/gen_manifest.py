#!/usr/bin/env python3
"""Regenerates /verif/MANIFEST.json from the table below (kept in one place so the file is
always schema-valid and the not_applicable list is always current)."""
import json, os
ROOT = os.path.dirname(os.path.dirname(os.path.abspath(__file__)))

# id -> (implemented, technique, level text, level note, design ref)
P = {
 "C01": (False, "", "", "", "§6 C01"),
 "C02": (False, "", "", "", "§6 C02"),
 "C03": (False, "", "", "", "§6 C03"),
 "C04": (False, "", "", "", "§6 C04"),
 "C05": (False, "", "", "", "§6 C05"),
 "C06": (False, "", "", "", "§6 C06"),
 "C07": (False, "", "", "", "§6 C07"),
 "C08": (False, "", "", "", "§6 C08"),
 "C09": (False, "", "", "", "§6 C09"),
 "C10": (False, "", "", "", "§6 C10"),
 "C11": (False, "", "", "", "§6 C11"),
 "C12": (False, "", "", "", "§6 C12"),
 "C13": (False, "", "", "", "§6 C13"),
 "C14": (False, "", "", "", "§6 C14"),
 "C15": (False, "", "", "", "§6 C15"),
 "C16": (True,
   "exhaustive small-universe enumeration + proptest random generation against an independent reference model of the sanitiser contract (differential), plus idempotence (metamorphic)",
   "Every (string, settings) pair of a 9-symbol alphabet up to length 5/6 x 112 settings is enumerated, random Unicode strings and the template-function path are sampled; each output is compared with a reference model written from the statement. No counter-example in the explored space; not a proof for longer strings.",
   "Trusts the reference model in harness/src/oracle/sanitize.rs (unit-tested on the documented examples); bounded outputs are accepted when they are any re-normalised prefix of the unbounded contract output.",
   "§6 C16"),
 "C17": (False, "", "", "", "§6 C17"),
 "C18": (False, "", "", "", "§6 C18"),
}

checks, na = [], []
for pid in sorted(P):
    impl, tech, text, note, ref = P[pid]
    if not impl:
        na.append({"property_id": pid, "reason": "check not built yet in this round (planned: DESIGN.md %s); nothing about this property is claimed" % ref})
        continue
    checks.append({
        "property_id": pid,
        "quick_cmd": f"./check {pid} quick",
        "thorough_cmd": f"./check {pid} thorough",
        "evidence_file": f"/verif/evidence/{pid}.json",
        "replay_cmd_template": f"./check {pid} --replay {{path}}",
        "engine": "zv",
        "level_claimed": {"category": "exploration", "text": text, "design_ref": "DESIGN.md " + ref},
        "level_note": note,
        "technique": tech,
    })

m = {
 "version": 1,
 "setup_cmd": "./setup.sh",
 "hooks": {
   "guard": "zerv_verif (reserved, unused: no source hooks were needed; every observation point is public API or the binary)",
   "enable": "none needed: checks build /repo as it is (cargo +1.93 build --offline, dev profile) and link it as a path dependency of harness/",
   "baseline_off_cmd": "./tools/baseline.sh",
   "source_commits": [],
   "add_only": True,
 },
 "engines": [
   {"name": "zv", "path": "harness/", "serves_properties": [c["property_id"] for c in checks if c["engine"] == "zv"],
    "kind_free_text": "Rust binary: seeded proptest runner pool (16 workers), exhaustive enumerators, shrinking, replay files, known-finding gate, evidence writer; independent oracles in harness/src/oracle"},
 ],
 "checks": checks,
 "not_applicable": na,
 "notes": "All checks rebuild the zerv binary and library from /repo's working tree (tools/build.sh) before running. Exit 2 = infrastructure/inconclusive. Known findings: known_findings.json.",
}
json.dump(m, open(os.path.join(ROOT, "MANIFEST.json"), "w"), indent=1, ensure_ascii=False)
print("MANIFEST.json:", len(checks), "checks,", len(na), "not_applicable")
