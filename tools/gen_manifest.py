#!/usr/bin/env python3
"""Regenerates /verif/MANIFEST.json from the table below (kept in one place so the file is
always schema-valid and the not_applicable list is always current)."""
import json, os
ROOT = os.path.dirname(os.path.dirname(os.path.abspath(__file__)))

# id -> (implemented, technique, level text, level note, design ref)
P = {
 "C01": (True,
   "proptest generation of (source, schema, vars, flags, format, prefix) against validity oracles: independent SemVer recogniser / PEP 440 normaliser, zerv's own parser+check (round-trip), render fixed point for presets; L1 vs real-binary differential for the one-line contract",
   '150k (quick) / 2.5M (thorough) generated runs of `zerv version` through the library entry point with nasty Unicode text in every free-text position, boundary numbers, all 22 presets and generated valid RON schemas, random override/bump/index flags; every successful output is judged by independent grammars and re-read by zerv; 1.5k/20k of the cases also go through the real binary to check prefix + exactly one line and agreement with the library call. Real repositories (branch names that need sanitising) are run through the binary, each also as a shallow clone (git clone --depth N) of itself.',
   'Trusts oracle::semver / oracle::pep440. Only successful runs are judged (failures belong to C13). Known finding F16 is absorbed by exact signature.',
   "§6 C01"),
 "C02": (True,
   'stateful model-based testing: proptest-generated git operation sequences executed against a real repository and an in-memory DAG model; the real binary is probed after steps and compared with ground truth known by construction plus independent version comparators',
   "500 (quick) / 8000 (thorough) histories of up to 14/40 operations (commits with skewed dates, branches, detach, --no-ff and octopus merges, lightweight/annotated tags of every name class at any commit, unreachable tags, tag deletion, four kinds of dirt) are built with native git; `zerv version -C` is run for input formats auto/semver/pep440 and every reported fact (nearest tagged commit, highest tag on it, distance, dirty, branch, hashes, times, no-tag failure) is checked against the harness's own model of the DAG. After every probed state the same repository is run with one of eight VCS-override combinations (--clean, --no-dirty, --dirty, --distance, --bumped-branch/--bumped-commit-hash, --no-bump-context, --bumped-timestamp): exactly the documented variables may change; and (clean states) the extracted object piped into --source stdin must give what the git source gives directly for version with six schemas and for flow. Operations include rewriting a tracked file with identical bytes, flipping a tracked file's executable bit, empty directories, branches named like a tag, files named like a tag or HEAD, pack-refs / gc, high-version tags on a blob or a tree, refs outside refs/heads and refs/tags named like versions, a second (optionally tagged) root merged with --allow-unrelated-histories. Every probed state is also run under a user-level git configuration (core.excludesFile ignoring an untracked file; column.ui / color.ui = always, tag.sort, log.decorate, status.short): dirty follows git's view, every other fact equals the plain run.",
   "Ground truth = the harness's model of what it built (commit hashes read back with git rev-parse). git 2.39.5 only; no shallow clones/submodules (a linked work tree is exercised in C03). Every generated commit has an author date 463 days before its committer date, in another zone.",
   "§6 C02"),
 "C03": (True,
   "proptest generation of flow states judged by independent SemVer / PEP 440 comparators (bounds X.Y.Z < V < X.Y.(Z+1), exact value when clean), metamorphic distance-monotonicity pairs, pre-release-tag fixed point; real-git first-parent chains in C02's repository machinery",
   "Final tags x branches x distances x dirty flags x rule sets x post modes x hash lengths x standard presets x both formats are run through `zerv flow`; the output is ordered against the tag and the next patch release by comparators that share no code with zerv; pairs of distances in commit mode must give strictly increasing versions; a clean checkout at a pre-release tag of flow's own shapes must return the tag. In the real-git chains a tracked file is rewritten with identical content before probes, and the printed post number must equal the number of commits since the tag. The tagged commit of a chain may also carry pre-release tags of the same release (rc promoted to final). At the end of a chain the commits after the tag are checked out in a linked work tree nested below the main checkout (which goes back to the tag): flow run from inside it equals flow -C and is above the tag.",
   'standard-base[-context] print only the bumped core by documented design (V == X.Y.(Z+1) asserted there). PEP 440 order = public version order. Tag numbers <= u32::MAX-2.',
   "§6 C03"),
 "C04": (True,
   'model-based testing: proptest-generated (tag, branch, distance, dirty, flags, rule set) against a reference model of the flow rules (differential on the emitted vars), exhaustive rule-pattern x branch-shape grid, metamorphic hash law (same value as hash_int in an unrelated template; independent of tag/distance; digit-count contract), wall-clock bracket for dev',
   'Every component flow derives (patch, label, number, post, dev) is compared with a model written from the statement for random states on sources none and stdin, for a 14 x 60 x 2 x 3 grid of rule patterns and branch shapes (prefix+non-slash suffixes, numeric segments at each depth, leading zeros, > u32 digits, Unicode), and for all hash lengths 1..10 on random branches; invalid rule sets and lengths must be rejected. Rule patterns with regular-expression metacharacters (literal text) are part of the grid and of the random rule sets. With a schema that adapts to the state (or has all three slots) the derived label, post and dev must also show up in the printed SemVer output.',
   'Trusts harness/src/oracle/flow.rs. Known finding F13 (length 10 overflows u32) absorbed by exact signature. A name that is exactly `prefix/` is not judged.',
   "§6 C04"),
 "C05": (True,
   'model-based testing: proptest-generated flag sets against a reference model of the eleven precedence levels (differential, field-by-field on the emitted Zerv object), metamorphic flag-order permutation, plus exhaustive enumeration of all 2^11 bump subsets on three start versions',
   'Start versions (canonical SemVer tags, PEP 440 tags in any spelling, stdin objects with arbitrary valid schemas and u64 vars) x context flags x random subsets of by-name overrides/bumps with boundary u32 amounts x index-addressed operations in the three index spellings (in/out of range, numeric and not) are run through `version --output-format zerv` and compared with the reference model, including expected rejections and overflow; a permuted argv must give the identical output.',
   "Trusts harness/src/oracle/bump.rs, written from the statement; the five behaviours the statement leaves open are listed as assumptions in props/c05.rs. Uses zerv's own RON parser to read the emitted object (its losslessness is C12).",
   "§6 C05"),
 "C06": (True,
   'proptest generation of (valid schema, vars) pairs against an independent reference renderer (differential, exact string equality for SemVer and PEP 440) through both the From conversions and `version --source stdin`; metamorphic tier law for the six smart presets',
   'Arbitrary valid schemas (mixes of var/str/uint/ts/custom components in the three sections) x assignments (nasty text, boundary numbers, nested custom JSON, unset fields) are rendered by zerv and by a reference renderer built on the sanitiser and calendar models; for each smart preset two assignments that agree on dirty/distance/pre-release/post must yield the same schema.',
   'Trusts harness/src/oracle/render.rs. PEP 440 strings are compared only when every number in a numeric slot fits u32 (above: F12b under C07). Epoch is None or >= 1; timestamps <= year 9999.',
   "§6 C06"),
 "C07": (True,
   "round-trip and fixed-point (metamorphic) relations through `zerv render` over generated canonical-shape versions, all PEP 440 spellings, SemVer identifier soups and out-of-range numbers; expected PEP 440 shape computed by the harness; independent PEP 440 comparator for 'equal version'; binary differential",
   'Canonical SemVer -> SemVer is the identity, -> PEP 440 equals the harness-computed shape, and back gives the original; every PEP 440 spelling -> SemVer -> PEP 440 is an equal version; every produced rendering is a fixed point; a number out of range is either rejected or preserved digit for digit.',
   'Known finding F12b (numbers between 2^32 and 2^64 silently dropped when rendering a SemVer input to PEP 440) is absorbed by exact signature. A SemVer with no PEP 440 rendering may be refused.',
   "§6 C07"),
 "C08": (True,
   'exhaustive short-string enumeration + grammar-directed proptest generation and mutation, differential against a hand-written SemVer 2.0.0 recogniser; print/parse round-trip; L1 vs real-binary differential for `check`',
   "Every suffix of '1.0.0' up to 6/7 symbols and every core string up to 7/8 symbols over grammar-relevant alphabets (incl. non-ASCII digit/letter) is decided against an independent recogniser of the SemVer BNF; generated valid strings with numbers up to 10^25 and their 1-2 symbol mutants are sampled; accepted strings must print back character for character; `zerv check` must agree in-process and through the binary. The report of `zerv check --format semver` is compared in-process (60k/1.2M cases) with the recogniser's verdict and printed form.",
   'Trusts harness/src/oracle/semver.rs (unit-tested on the semver.org regex test-suite examples). A grammar-valid string whose number exceeds u64 may be rejected but never printed differently.',
   "§6 C08"),
 "C09": (True,
   'exhaustive short-string enumeration + all-spellings generator and mutator (proptest), differential against a hand-written backtracking matcher/normaliser of PEP 440 Appendix B; idempotence and equality round-trips; L1 vs binary differential',
   "All strings up to length 4/5 and all suffixes of '1.0' up to 4/5 over 26 symbols (PEP 440 alphabet + case-folding look-alikes ſ, K) are decided against an independent matcher; every spelling of structured versions and their mutants are sampled; accepted strings must print the oracle's normal form with every number preserved, normalising must be idempotent and compare equal; `zerv check` must agree. The report of `zerv check --format pep440` (verdict, 'normalized' exactly when the input is not its own normal form) is compared in-process with the oracle on 60k/1.2M strings, most of them the normal form with exactly one departure from it.",
   'Trusts harness/src/oracle/pep440.rs, cross-checked against python `packaging` on 244k ASCII strings by tools/xcheck_oracles.py (0 disagreements). Numbers above u32 may be rejected, never altered.',
   "§6 C09"),
 "C10": (True,
   'exhaustive all-pairs enumeration of a 2072-version universe + random large versions, differential against an independent SemVer §11 comparator; order laws (antisymmetry, transitivity, == iff Equal) checked oracle-free; max-tag validity predicate',
   'All 4.29 M ordered pairs of the universe (8 cores x all pre-release lists of length <=3 over {0,1,10,a,B,-}, build metadata attached) are compared with an arbitrary-precision reference comparator; transitivity over pre-release triples (all 259^3 in thorough); random versions with numbers to u64::MAX and lists to 8; find_max_version_tag must return an element no other exceeds. The exhaustive universe now has 3200 versions (identifier a- added: 10.2 M pairs); max-tag lists concentrate on one release line with build metadata on some tags. git-max-tag: real repositories with several generated tags on one commit (optionally a branch named like one of them) through the binary.',
   "Trusts harness/src/oracle/semver.rs::cmp (unit-tested on the spec's precedence chain).",
   "§6 C10"),
 "C11": (True,
   'exhaustive all-pairs enumeration of an 1800-version field universe in index-derived spellings + random versions, differential against the ordering key stated in C11; spelling-independence and order laws checked oracle-free',
   'All 3.24 M ordered pairs of the universe, each side rendered in a different spelling (case, separators, alternative labels, leading zeros, v, explicit 0!, implicit numbers, trailing .0), are compared with the stated key computed on digit strings; all spellings of one version must compare Equal and ==; transitivity/antisymmetry on random triples; max-tag predicate for PEP 440 tags. Tag lists contain \'twins\' (one tag re-written with a single separator exchanged); numeric local parts go beyond u32/u64. git-max-tag: real repositories with several generated PEP 440 tags on one commit through the binary; local segments up to 70 characters, related pairs differing in the last character of a segment.',
   'Trusts harness/src/oracle/pep440.rs::cmp, written from the key in the property statement (which differs from PEP 440 proper only in where a bare dev release sorts).',
   "§6 C11"),
 "C12": (True,
   'round-trip property testing (emit -> parse -> emit) over proptest-generated and zerv-emitted objects, differential direct-vs-piped rendering (in-process and through a real process pipe), negative testing with one-rule-broken, trailing-content (a complete document followed by a stray tail or a second document) and mutated/truncated/garbage documents, independent placement validator',
   'Objects built from generated schemas x vars (escapes, Unicode, nested custom JSON, u64 edges) and objects emitted by `version`/`flow` with random flags must parse back equal and re-emit byte-identically, satisfy an independent implementation of the placement rules, and render the same through `--source stdin` as directly (semver, pep440, templates; also through two real processes connected by a pipe); clock-free objects (harness-made with custom precedence orders, or emitted by version/flow runs) must pass through `version --source stdin --output-format zerv` byte-identically; each of 8 placement rules broken in an otherwise valid document must be refused by version and flow in every output format; malformed documents give an error or a lossless object, never a panic. big-documents: objects of 8-40 KiB with a long run of 2-/3-/4-byte characters at a random offset through two real processes and a pipe.',
   "custom Null (source none) and {} (stdin default) are treated as the same 'no custom variables'. Dirty objects that print a timestamp are not compared through the pipe (wall clock).",
   "§6 C12"),
 "C13": (True,
   'fuzzing with structured adversarial argv/stdin generation (proptest) under a no-panic / process-contract oracle, in-process and through the real binary (differential, -v/RUST_LOG metamorphic), plus exhaustive single-fault enumeration of every git invocation via a PATH shim',
   "200k (quick) / 3M (thorough) adversarial argument vectors for the four sub-commands run in-process under catch_unwind; 700/10k of them through the binary checking exit status 0/1, empty stdout + diagnostic on failure, library/binary agreement and stdout invariance under -v and RUST_LOG=trace; for generated repositories every git call zerv makes is failed in turn in 8 ways (about 90 fault runs per repository and command) and 8 special environment states are tried; ten template shapes nested/chained up to the argv limit (binary only) are held to the same contract and to their value (two defects of the template engine are absorbed by signature: F17 stack overflow, F18 exponential parse); a table check keeps the generator's flag set equal to `--help`. special-states now has 18 entries (8 faults, 6 unusual healthy repositories, 4 commits carrying several names of one version); a third of the argument vectors are whole valid command lines with one to three adversarial flags; a TRACE-level subscriber evaluates every log argument in-process.",
   'Single git faults only (multi-fault sequences are not enumerated). special-states also runs command lines with an argument that is not valid UTF-8, stdin documents whose custom value is nested 40 .. 200 000 deep, and six calls of Tera built-ins (known finding F30: get_random on an empty range). --llm-help excluded. Clock-derived 10-digit numbers are masked when comparing runs.',
   "§6 C13"),
 "C14": (True,
   'metamorphic testing through the real binary: proptest-generated runs (stdin objects with day-boundary timestamps and time/hash-printing schemas and templates; real repositories) repeated under a matrix of environments; output must be byte-identical to the baseline',
   '600 (quick) / 6000 (thorough) stdin cases and 100/1200 repositories are each run in a UTC/C baseline and in 15 environment variants (time zones from UTC-11 to UTC+14 incl. POSIX TZ strings and unset TZ, locales, another cwd, 59 unrelated variables, repetition, unrelated variables whose value or name is not valid UTF-8, the German/French message catalogue of git - stdout and status only), with RUST_LOG=debug, three concurrent processes, and (git) from inside the repository without -C; stdout, exit status and stderr must not change. Timestamps lie within 14 h of a UTC day boundary so any local-time use flips a printed field. A third of the git cases are really dirty trees switched off by --no-dirty/--clean, repeated 1.1 s later; stdin cases carry random clock-free flags and unset timestamps.',
   "Cases are clock-free by construction (the documented wall-clock dev timestamp is excluded here and bracketed in C02/C04/C06). Only the image's locales exist; one machine/libc/rustc.",
   "§6 C14"),
 "C15": (True,
   'differential testing of the template context against --output-format output for the same object, recomposition identities (metamorphic), and function-contract checks against reference models (sanitiser, calendar strftime subset) and stated length/digit contracts over proptest-generated objects and arguments',
   'For generated clock-free objects every documented template variable is probed (between sentinels) and compared with the renderer output / the input variable; *_obj parts must recompose exactly and docker must be the SemVer with + replaced by -; hash, hash_int, prefix, prefix_if, sanitize and format_timestamp are called with arbitrary Unicode values and generated arguments and judged by contracts and reference models; invalid strftime specifiers must produce an error, not a panic; the same agreement is checked at the end of whole `zerv version` command lines (overrides, bumps, schema-section operations) against --output-format of the same command line. Templates as values of override/bump flags must act like the literal value they evaluate to; literal text around a placeholder (file-name endings, HTML-special characters) is copied and leaves the value unchanged; sanitize() without a separator treats the whole value as one segment.',
   'Trusts oracle::sanitize and oracle::calendar::strftime (37 specifiers incl. the zone-bearing %z %:z %Z %+). Unset variables render as empty text. Harness TZ is 14 h from UTC so local-time use shows.',
   "§6 C15"),
 "C16": (True,
   "exhaustive small-universe enumeration + proptest random generation against an independent reference model of the sanitiser contract (differential), plus idempotence (metamorphic)",
   "Every (string, settings) pair of a 9-symbol alphabet up to length 5/6 x 112 settings is enumerated, random Unicode strings and the template-function path are sampled; each output is compared with a reference model written from the statement. No counter-example in the explored space; not a proof for longer strings. Where the contract output has at most max_length characters the output must equal it exactly; numbers are passed to the template function both as text and as numeric literals.",
   "Trusts the reference model in harness/src/oracle/sanitize.rs (unit-tested on the documented examples); bounded outputs are accepted when they are any re-normalised prefix of the unbounded contract output.",
   "§6 C16"),
 "C17": (True,
   'exhaustive enumeration of every day 1970-2199 (first and last second) x 16 patterns + random boundary-biased instants, differential against an independent civil-from-days calendar; CLI metamorphic relation ts(p) == literal of the oracle value; harness runs 14 h away from UTC',
   "Every day of the quantifier's range is checked at 00:00:00 and 23:59:59 for all 16 patterns against Hinnant's calendar algorithm (no chrono); CalVer presets are run through the version pipeline on sources none and stdin and must start with the UTC year.month.day of the commit (else tag) time; each documented pattern by name in each schema section must render exactly like the literal of the oracle's value. Real repositories (commits with skewed dates around a tag, clean or really dirty) are run with CalVer presets and --clean / --no-dirty / --no-bump-context.",
   'Trusts harness/src/oracle/calendar.rs (unit-tested on known dates, leap years and week-0 cases). beyond-i64: timestamps of 2^63 and above must be refused by every pattern and by format_timestamp (F27). Generated commits carry an author date that differs from the committer date. The in-process layer runs with TZ=<+14>-14 so any local-time use shows.',
   "§6 C17"),
 "C18": (True,
   'Hypothesis differential testing: each Python call against the equivalent command line built independently from the keyword names and run on the freshly built binary; finite per-keyword enumeration, generated keyword subsets with shrinking, stateful call sequences, fault injection on the child process (stand-in binary: exit statuses 0..255 and deaths by signal), option-parity table against --help',
   "Every keyword of zerv.version/flow/check/render is exercised individually with valid values and in Hypothesis-generated subsets (None/False included); the call must return exactly the stripped stdout of the independent command line, raise RuntimeError iff that command fails, and execute the same argv when None/False keywords are removed; every long option listed by `zerv <sub> --help` must be reachable from a keyword and every keyword's flag must exist.",
   "inherited-stdin: a child interpreter whose own stdin is a pipe (a Zerv document, empty, garbage), inside and outside a repository, against the command line started the same way. The reference command line is read as bytes (carriage returns survive). The wrapper is imported from /repo/python with find_zerv_bin pointed at the binary built from /repo; maturin/PyO3 packaging is out of scope. Values are valid per keyword and never start with '-'.",
   "§6 C18"),
}

# in-process sub-checks that tools/fuzz.sh also runs under coverage guidance (DESIGN.md 7.2)
GD = {
 "C01": ["render-valid", "flow-valid"], "C03": ["flow-bounds", "commit-monotone", "prerelease-tag-fixed", "prerelease-tag-monotone"],
 "C04": ["flow-model", "hash-lengths"], "C05": ["bump-model"], "C06": ["render-model", "smart-tier", "smart-tier-abstract"],
 "C07": ["canon-roundtrip", "canon-semver-u64", "pep-roundtrip", "semver-to-pep-fixed", "out-of-range"], "C08": ["grammar-mutants", "check-report"],
 "C09": ["spellings", "grammar-mutants", "check-report"], "C10": ["rand-pairs", "rand-triples", "max-tag"], "C11": ["rand-pairs", "rand-triples", "max-tag"],
 "C12": ["roundtrip", "one-rule-broken", "trailing-content", "malformed-documents"], "C13": ["argv-fuzz"],
 "C15": ["context-vs-renderer", "function-contracts", "template-valued-flags", "literal-context"], "C16": ["rand-unicode", "presets", "template-fn"],
 "C17": ["rand-instants", "beyond-i64", "cli-calver"],
}
checks, na = [], []
for pid in sorted(P):
    impl, tech, text, note, ref = P[pid]
    if not impl:
        na.append({"property_id": pid, "reason": "check not built yet in this round (planned: DESIGN.md %s); nothing about this property is claimed" % ref})
        continue
    if pid in GD:
        tech += "; thorough tier: coverage-guided libFuzzer campaigns over the same proptest generators and oracles (gen_driven: the fuzzer's input is the generator's random source; sub-checks " + ", ".join(GD[pid]) + ")"
    checks.append({
        "property_id": pid,
        "quick_cmd": f"./check {pid} quick",
        "thorough_cmd": f"./check {pid} thorough",
        "evidence_file": f"/verif/evidence/{pid}.json",
        "replay_cmd_template": f"./check {pid} --replay {{path}}",
        "engine": "c18-hypothesis" if pid == "C18" else "zv",
        "level_claimed": {"category": "exploration", "text": text, "design_ref": "DESIGN.md " + ref},
        "level_note": note,
        "technique": tech,
    })

m = {
 "version": 1,
 "setup_cmd": "./setup.sh",
 "hooks": {
   "guard": "zerv_verif (reserved, unused: no source hooks were needed; every observation point is public API or the binary)",
   "enable": "none needed: checks build /repo as it is (cargo +1.93 build --offline, dev profile) and link it as a path dependency of harness/",
   "baseline_off_cmd": "./tools/baseline.sh",
   "source_commits": [],
   "add_only": True,
 },
 "engines": [
   {"name": "zv", "path": "harness/", "serves_properties": [c["property_id"] for c in checks if c["engine"] == "zv"],
    "kind_free_text": "Rust library + binary: seeded proptest runner pool (16 workers), exhaustive enumerators, shrinking, replay files, known-finding gate, evidence writer; independent oracles in harness/src/oracle; harness/fuzz holds the libFuzzer targets (7 byte-level targets + gen_driven, which runs any generator-backed sub-check under coverage guidance)"},
   {"name": "c18-hypothesis", "path": "py/c18.py", "serves_properties": ["C18"],
    "kind_free_text": "Python (tooling venv python3-vt): Hypothesis strategies per keyword, differential oracle against the CLI, replay + evidence writer"},
 ],
 "checks": checks,
 "not_applicable": na,
 "notes": "All checks rebuild the zerv binary and library from /repo's working tree (tools/build.sh) before running. Exit 2 = infrastructure/inconclusive. Known findings: known_findings.json.",
}
json.dump(m, open(os.path.join(ROOT, "MANIFEST.json"), "w"), indent=1, ensure_ascii=False)
print("MANIFEST.json:", len(checks), "checks,", len(na), "not_applicable")
