#!/usr/bin/env python3
"""Regenerates the generated tables of DESIGN.md Appendix A (between the markers) from
mutants/results.json, mutants/table.py and seeded/*/meta.json."""
import json, os, sys, glob
ROOT = os.path.dirname(os.path.dirname(os.path.abspath(__file__)))
sys.path.insert(0, os.path.join(ROOT, "mutants"))
from table import MUTANTS
res = json.load(open(os.path.join(ROOT, "mutants", "results.json")))
lines = []
lines.append("### A.2 Sensitivity: hand-written mutants (`tools/mutate.py run all`)\n")
lines.append("Each mutant is a small edit of `/repo` that compiles; `caught` = the named check's **quick** tier exits 1 with a VIOLATION line.\nMutants that turned out to be semantically equivalent were removed from the table (listed in A.3).\n")
lines.append("| mutant | file | check | result | first violation reported |")
lines.append("|---|---|---|---|---|")
tot = caught = 0
for m in MUTANTS:
    r = res.get(m["name"])
    for pid in m["props"]:
        tot += 1
        if not r or pid not in r["props"]:
            lines.append(f"| {m['name']} | {m['file']} | {pid} | not run | |")
            continue
        x = r["props"][pid]
        ok = x["caught"]
        caught += ok
        first = x.get("first", "").replace("|", "\\|")[:110]
        lines.append(f"| {m['name']} | {m['file'].replace('src/','')} | {pid} | {'caught' if ok else 'MISSED (exit %s)' % x['exit']} | {first} |")
lines.append(f"\n{caught} of {tot} (mutant, check) pairs caught.\n")
lines.append("### A.4 Changes written by independent sub-agents (`seeded/<id>/`)\n")
lines.append("Each sub-agent got only the text of one property and its own scratch worktree; I confirmed suite-green / demo-fails-with / demo-passes-without myself, then applied the patch to `/repo`, ran the check, and restored the tree.\n")
lines.append("| seed | breaks | what it needs to manifest | caught by | first violation reported |")
lines.append("|---|---|---|---|---|")
for f in sorted(glob.glob(os.path.join(ROOT, "seeded", "*", "meta.json"))):
    m = json.load(open(f))
    oc = m['our_checks']
    caught_txt = oc["caught_by"] + (" -> **now:** " + oc['after_strengthening']['caught_by'] if 'after_strengthening' in oc else "")
    first = (oc.get('after_strengthening') or oc).get('first_violation', '')
    lines.append(f"| {m['seed']} | {m['breaks_property']} | {m['needs_to_manifest'].replace('|','/')} | {caught_txt} | {first.replace('|','/')[:140]} |")
text = "\n".join(lines) + "\n"
p = os.path.join(ROOT, "DESIGN.md")
s = open(p).read()
B, E = "<!-- GENERATED:BEGIN -->", "<!-- GENERATED:END -->"
if B in s:
    s = s[:s.index(B) + len(B)] + "\n" + text + s[s.index(E):]
else:
    s = s.rstrip() + "\n\n" + B + "\n" + text + E + "\n"
open(p, "w").write(s)
print("appendix regenerated:", caught, "/", tot)
