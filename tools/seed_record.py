#!/usr/bin/env python3
"""tools/seed_record.py <seed-id> <property> <caught-by> <needs...>
Copies a confirmed sub-agent change from /tmp/seed/out-<seed-id> to /verif/seeded/<seed-id>/
(patch.diff, demo.sh, notes.md) and writes meta.json from the evaluation log."""
import json, os, re, shutil, sys
sid, prop, caught = sys.argv[1], sys.argv[2], sys.argv[3]
needs = " ".join(sys.argv[4:])
src = f"/tmp/seed/out-{sid.split('-')[0] if not os.path.isdir(f'/tmp/seed/out-{sid}') else sid}"
dst = f"/verif/seeded/{sid}"
os.makedirs(dst, exist_ok=True)
for f in ("patch.diff", "demo.sh", "notes.md"):
    shutil.copy(os.path.join(src, f), os.path.join(dst, f))
log = ""
for cand in sorted(os.listdir("/tmp/seed")):
    if cand.startswith("eval-") and cand.endswith(".log"):
        t = open(os.path.join("/tmp/seed", cand), errors="replace").read()
        m = re.search(r"######## %s\n(.*?)(?=\n######## |\Z)" % re.escape(sid), t, re.S)
        if m: log = m.group(1)
def grab(pat):
    m = re.search(pat, log)
    return m.group(1).strip() if m else None
meta = {
  "seed": sid, "breaks_property": prop,
  "needs_to_manifest": needs,
  "origin": "fresh sub-agent given only the property text and its own scratch worktree of /repo (nothing from /verif)",
  "confirmed_by_me": {
    "suite_with_change": grab(r"(SUITE: [^\n]*)"),
    "demo_with_change_exit": grab(r"must fail\)\nexit=(\d+)"),
    "demo_without_change_exit": grab(r"must pass\)\n(?:[^\n]*\n)?exit=(\d+)") or grab(r"must pass\)\nexit=(\d+)"),
    "commands": ["/tmp/seed/tools/run_suite.sh <worktree>  (cargo nextest, compared with BASELINE stable_pass)", "demo.sh <modified worktree>", "demo.sh /repo (unmodified)", "git -C /repo apply patch.diff; ./check <ID> quick; git -C /repo checkout -- ."],
  },
  "our_checks": {"caught_by": caught, "first_violation": (grab(r"(sub-check=[^\n]*)") or "")[:400]},
}
json.dump(meta, open(os.path.join(dst, "meta.json"), "w"), indent=1, ensure_ascii=False)
print(json.dumps(meta, indent=1, ensure_ascii=False)[:900])
