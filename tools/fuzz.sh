#!/usr/bin/env bash
# tools/fuzz.sh <PROPERTY-ID> <runs-per-target>   (thorough tier; DESIGN.md §7)
# Runs the coverage-guided libFuzzer targets that carry this property's oracle, from the
# committed seeds plus an empty-corpus run.  Prints "FUZZ_EXECS <n>"; on a crash prints
# "VIOLATION property=<ID> replay=<json>" and exits 1; build trouble exits 2.
set -u
ROOT="$(cd "$(dirname "$0")/.." && pwd)"
ID="$1"; RUNS="${2:-2000000}"; SEED="${VERIF_SEED:-0}"
case "$ID" in
  C07) TARGETS="render_any" ;;
  C08) TARGETS="semver_parse" ;;
  C09) TARGETS="pep440_parse" ;;
  C12) TARGETS="zerv_ron_stdin" ;;
  C13) TARGETS="argv_bytes template_fn render_any zerv_ron_stdin" ;;
  C15) TARGETS="template_fn" ;;
  C16) TARGETS="sanitize" ;;
  *) TARGETS="" ;;
esac
# generator-driven campaigns (DESIGN.md 7.2): the in-process sub-checks of the property, run by
# the one target `gen_driven` with the libFuzzer input as the random source of the sub-check's own
# proptest strategy and the sub-check's own oracle as the verdict
case "$ID" in
  C01) GD="render-valid flow-valid" ;;
  C03) GD="flow-bounds commit-monotone prerelease-tag-fixed prerelease-tag-monotone" ;;
  C04) GD="flow-model hash-lengths" ;;
  C05) GD="bump-model" ;;
  C06) GD="render-model smart-tier smart-tier-abstract" ;;
  C07) GD="canon-roundtrip canon-semver-u64 pep-roundtrip semver-to-pep-fixed out-of-range" ;;
  C08) GD="grammar-mutants check-report" ;;
  C09) GD="spellings grammar-mutants check-report" ;;
  C10) GD="rand-pairs rand-triples max-tag" ;;
  C11) GD="rand-pairs rand-triples max-tag" ;;
  C12) GD="roundtrip one-rule-broken trailing-content malformed-documents" ;;
  C13) GD="argv-fuzz" ;;
  C15) GD="context-vs-renderer function-contracts template-valued-flags literal-context" ;;
  C16) GD="rand-unicode presets template-fn" ;;
  C17) GD="rand-instants beyond-i64 cli-calver" ;;
  *) GD="" ;;
esac
[ -n "${VERIF_NO_GD:-}" ] && GD=""
if [ -z "$TARGETS" ] && [ -z "$GD" ]; then echo "FUZZ_EXECS 0"; exit 0; fi
export CARGO_NET_OFFLINE=true
TD="$ROOT/.cache/target-fuzz"
( cd "$ROOT/harness/fuzz" && cargo +nightly fuzz build -s none --fuzz-dir . --target-dir "$TD" >"$ROOT/.cache/build-fuzz.log" 2>&1 ) || { tail -20 "$ROOT/.cache/build-fuzz.log"; echo "INFRA: fuzz build failed"; exit 2; }
BIN="$TD/x86_64-unknown-linux-gnu/release"
[ "$SEED" = "0" ] && LSEED=1 || LSEED="$SEED"   # libFuzzer: 0 means random
# campaigns (target x {seeded, empty}) run in parallel; slower targets get proportionally fewer runs
maxlen() { case "$1" in template_fn) echo 40 ;; *) echo 256 ;; esac; }
divisor() { case "$1" in argv_bytes) echo 10 ;; zerv_ron_stdin) echo 8 ;; template_fn) echo 4 ;; render_any) echo 2 ;; *) echo 1 ;; esac; }
run_one() {
  t="$1"; mode="$2"
  work="$ROOT/.cache/fuzz-run/$ID-$t-$mode"; rm -rf "$work"; mkdir -p "$work/corpus" "$work/artifacts"
  if [ "$mode" = seeded ] && [ -d "$ROOT/harness/fuzz/seeds/$t" ]; then cp "$ROOT/harness/fuzz/seeds/$t"/* "$work/corpus/" 2>/dev/null; fi
  dict=""; [ -f "$ROOT/harness/fuzz/dict/$t.dict" ] && dict="-dict=$ROOT/harness/fuzz/dict/$t.dict"
  runs=$((RUNS / $(divisor "$t")))
  ( cd / && "$BIN/$t" "$work/corpus" -runs="$runs" -seed="$LSEED" -max_len="$(maxlen "$t")" -len_control=0 -timeout=60 -rss_limit_mb=4096 \
      -artifact_prefix="$work/artifacts/" -print_final_stats=1 $dict >"$work/log" 2>&1 </dev/null )
  echo $? > "$work/status"
}
GDRUNS="${VERIF_GD_RUNS:-$((RUNS / 16))}"
# executions per campaign by measured speed class (whole command lines through clap + pipeline
# run at 100-400/s under instrumentation, parsers and comparators at 3000-6000/s)
gd_div() {
  case "$ID:$1" in
    C01:*|C03:*|C04:*|C05:*|C12:roundtrip|C12:one-rule-broken|C12:trailing-content|C13:*|C15:context-vs-renderer|C15:template-valued-flags) echo 16 ;;
    C06:*|C12:malformed-documents|C15:function-contracts|C15:literal-context|C16:template-fn) echo 4 ;;
    *) echo 1 ;;
  esac
}
run_gd() {
  sub="$1"
  gdruns=$((GDRUNS / $(gd_div "$sub")))
  work="$ROOT/.cache/fuzz-run/$ID-gd-$sub"; rm -rf "$work"; mkdir -p "$work/corpus" "$work/artifacts"
  # libFuzzer grows inputs slowly from an empty corpus: start from a few full-length random files
  python3 - "$work/corpus" "$LSEED" "$sub" <<'PY'
import random, sys
d, seed, sub = sys.argv[1], sys.argv[2], sys.argv[3]
r = random.Random(f"{seed}/{sub}")
for i, n in enumerate([64, 256, 512, 1024, 2048, 4096, 1024, 512]):
    open(f"{d}/seed{i}", "wb").write(bytes(r.getrandbits(8) for _ in range(n)))
PY
  ( cd / && ZV_GD="$ID:$sub" ZV_GD_STATS="$work/stats.json" VERIF_ROOT="$ROOT" "$BIN/gen_driven" "$work/corpus" -runs="$gdruns" -seed="$LSEED" -max_len=4096 -len_control=0 \
      -timeout=120 -rss_limit_mb=6144 -artifact_prefix="$work/artifacts/" -print_final_stats=1 >"$work/log" 2>&1 </dev/null )
  echo $? > "$work/status"
}
for t in $TARGETS; do for mode in seeded empty; do run_one "$t" "$mode" & done; done
for s in $GD; do run_gd "$s" & done
wait
total=0; rc=0
gd_nt=0; gd_known=0
for s in $GD; do
  work="$ROOT/.cache/fuzz-run/$ID-gd-$s"
  st=$(cat "$work/status" 2>/dev/null || echo 99)
  n=$(python3 -c "import json,sys; d=json.load(open(sys.argv[1])); print(d['execs'], d['nontrivial'], d['known'], d['skipped'])" "$work/stats.json" 2>/dev/null || echo "0 0 0 0")
  set -- $n
  total=$((total + $1)); gd_nt=$((gd_nt + $2)); gd_known=$((gd_known + $3))
  echo "GD $ID:$s execs=$1 nontrivial=$2 known=$3 skipped=$4 cov=$(grep -a -o 'cov: [0-9]*' "$work/log" | tail -1 | cut -d' ' -f2) corpus=$(ls "$work/corpus" | wc -l)"
  if [ $st -ne 0 ]; then
    rp=$(grep -a -m1 -o 'GD-FAIL replay=.*' "$work/log" | cut -d= -f2-)
    if [ -n "$rp" ]; then
      echo "VIOLATION property=$ID replay=$rp"
      echo "  sub-check=$s (coverage-guided): $(grep -a -m1 'GD-MSG' "$work/log" | cut -c8-600)"
      rc=1
    elif ls "$work/artifacts"/crash-* >/dev/null 2>&1; then
      # a crash that is not the oracle's verdict (abort in a dependency, stack overflow): keep the input
      art=$(ls "$work/artifacts"/crash-* | head -1); mkdir -p "$ROOT/replays/$ID"
      keep="$ROOT/replays/$ID/fuzz-gd-$s-$(sha1sum "$art" | cut -c1-12)"; cp "$art" "$keep.bin"
      python3 - "$ID" "$s" "$keep" <<'PY'
import json, sys
pid, s, keep = sys.argv[1:4]
data = open(keep + ".bin", "rb").read()
json.dump({"property": pid, "sub_check": "fuzz:gen_driven", "gd": f"{pid}:{s}", "artifact": keep + ".bin", "input_hex": data.hex(), "message": "process died outside the oracle (abort / stack overflow) on this generated case"}, open(keep + ".json", "w"), indent=1)
PY
      echo "VIOLATION property=$ID replay=$keep.json"; echo "  sub-check=$s (coverage-guided): process died outside the oracle"; rc=1
    else
      echo "INFRA: generator-driven campaign $ID:$s stopped abnormally (timeout/oom/other, exit $st) - inconclusive; see $work/log"
      [ $rc -eq 0 ] && rc=2
    fi
  fi
done
[ -n "$GD" ] && echo "GD_TOTAL nontrivial=$gd_nt known=$gd_known"
for t in $TARGETS; do
  for mode in seeded empty; do
    work="$ROOT/.cache/fuzz-run/$ID-$t-$mode"
    st=$(cat "$work/status" 2>/dev/null || echo 99)
    n=$(grep -a "stat::number_of_executed_units" "$work/log" | awk '{print $2}'); total=$((total + ${n:-0}))
    if [ $st -ne 0 ]; then
      art=$(ls "$work/artifacts"/crash-* "$work/artifacts"/timeout-* "$work/artifacts"/oom-* 2>/dev/null | head -1)
      if [ -n "$art" ] && ls "$work/artifacts"/crash-* >/dev/null 2>&1; then
        # minimise, then keep only crashes that are OUR oracle or a panic in zerv (tmin minimises to any crash)
        ( cd / && "$BIN/$t" -minimize_crash=1 -runs=20000 -exact_artifact_path="$work/artifacts/min" "$art" >"$work/min.log" 2>&1 )
        [ -f "$work/artifacts/min" ] && ( cd / && ! "$BIN/$t" "$work/artifacts/min" >/dev/null 2>&1 ) && art="$work/artifacts/min"
        mkdir -p "$ROOT/replays/$ID"
        keep="$ROOT/replays/$ID/fuzz-$t-$(sha1sum "$art" | cut -c1-12)"
        cp "$art" "$keep.bin"
        msg=$( (cd / && "$BIN/$t" "$keep.bin" 2>&1) | grep -a -m1 "panicked at" -A2 | tr '\n' ' ' | cut -c1-600)
        python3 - "$ID" "$t" "$keep" "$msg" <<'PY'
import json, sys
pid, t, keep, msg = sys.argv[1:5]
data = open(keep + ".bin", "rb").read()
json.dump({"property": pid, "sub_check": "fuzz:" + t, "artifact": keep + ".bin", "input_lossy": data.decode("utf-8", "replace"), "input_hex": data.hex(), "message": msg}, open(keep + ".json", "w"), indent=1, ensure_ascii=False)
PY
        echo "VIOLATION property=$ID replay=$keep.json"
        echo "  sub-check=fuzz:$t: $msg"
        rc=1
      elif ls "$work/artifacts"/timeout-* >/dev/null 2>&1; then
        # a slow unit is not a verdict; only an input that does not finish at all is (C13: zerv terminates)
        tart=$(ls "$work/artifacts"/timeout-* | head -1)
        t0=$(date +%s)
        ( cd / && timeout 900 "$BIN/$t" "$tart" >/dev/null 2>&1 </dev/null ); tst=$?
        t1=$(date +%s)
        if [ $tst -eq 124 ]; then
          mkdir -p "$ROOT/replays/$ID"; keep="$ROOT/replays/$ID/fuzz-$t-hang-$(sha1sum "$tart" | cut -c1-12)"; cp "$tart" "$keep.bin"
          python3 - "$ID" "$t" "$keep" <<'PY'
import json, sys
pid, t, keep = sys.argv[1:4]
data = open(keep + ".bin", "rb").read()
json.dump({"property": pid, "sub_check": "fuzz:" + t, "artifact": keep + ".bin", "input_lossy": data.decode("utf-8", "replace"), "input_hex": data.hex(), "message": "input does not finish within 900 s"}, open(keep + ".json", "w"), indent=1, ensure_ascii=False)
PY
          echo "VIOLATION property=$ID replay=$keep.json"; echo "  sub-check=fuzz:$t: input does not finish within 900 s (hang)"; rc=1
        else
          echo "NOTE: fuzz target $t ($mode) met a slow unit: $((t1 - t0)) s for one input (finishes; not a verdict): $tart"
        fi
      else
        echo "INFRA: fuzz target $t ($mode) stopped abnormally (oom/other, exit $st) - inconclusive; see $work/log"
        [ $rc -eq 0 ] && rc=2
      fi
    fi
  done
done
echo "FUZZ_EXECS $total"
exit $rc
