#!/usr/bin/env python3
"""Sensitivity protocol (DESIGN.md §8): apply one realistic mutant to /repo's working tree,
run the property's check, restore the tree.  Mutants live in mutants/table.py as
(name, property ids, file, old, new[, count]).  Results go to mutants/results.json.

  tools/mutate.py list
  tools/mutate.py run <name>... | all | prop:<ID>   [--tier quick|thorough] [--suite]
"""
import json, os, subprocess, sys, time
ROOT = os.path.dirname(os.path.dirname(os.path.abspath(__file__)))
sys.path.insert(0, os.path.join(ROOT, "mutants"))
from table import MUTANTS  # noqa

def sh(cmd, **kw):
    return subprocess.run(cmd, shell=True, text=True, capture_output=True, **kw)

def clean():
    r = sh("git -C /repo status --porcelain --untracked-files=no")
    return r.stdout.strip() == ""

def restore():
    sh("git -C /repo checkout -- .")

def apply(m):
    path = os.path.join("/repo", m["file"])
    s = open(path, encoding="utf-8").read()
    n = s.count(m["old"])
    want = m.get("count", 1)
    if n < 1 or (want and n != want):
        raise SystemExit(f"mutant {m['name']}: pattern occurs {n} times in {m['file']} (expected {want})")
    s = s.replace(m["old"], m["new"])
    open(path, "w", encoding="utf-8").write(s)

def main():
    args = sys.argv[1:]
    if not args or args[0] == "list":
        for m in MUTANTS:
            print(f"{m['name']:<40} {','.join(m['props']):<14} {m['file']}")
        return
    tier = "quick"; suite = False; names = []
    it = iter(args[1:])
    for a in it:
        if a == "--tier": tier = next(it)
        elif a == "--suite": suite = True
        else: names.append(a)
    sel = []
    for n in names:
        if n == "all": sel = list(MUTANTS)
        elif n.startswith("prop:"): sel += [m for m in MUTANTS if n[5:] in m["props"]]
        else:
            f = [m for m in MUTANTS if m["name"] == n]
            if not f: raise SystemExit("unknown mutant " + n)
            sel += f
    if not clean():
        raise SystemExit("/repo working tree is not clean; refusing")
    respath = os.path.join(ROOT, "mutants", "results.json")
    results = json.load(open(respath)) if os.path.exists(respath) else {}
    try:
        for m in sel:
            apply(m)
            rec = {"props": {}, "tier": tier}
            for pid in m["props"]:
                t0 = time.time()
                r = sh(f"./check {pid} {tier}", cwd=ROOT)
                caught = r.returncode == 1 and "VIOLATION property=" + pid in r.stdout
                first = next((l for l in r.stdout.splitlines() if l.strip().startswith("sub-check=")), "")
                rec["props"][pid] = {"exit": r.returncode, "caught": caught, "wall_s": round(time.time() - t0, 1), "first": first.strip()[:300]}
                print(f"{m['name']:<40} {pid} exit={r.returncode} {'CAUGHT' if caught else 'MISSED'} {first.strip()[:160]}")
                if r.returncode == 2:
                    print(r.stdout[-1500:])
            if suite:
                r = sh("./tools/baseline.sh", cwd=ROOT)
                rec["suite_green"] = r.returncode == 0
                print("   suite:", r.stdout.strip().splitlines()[0] if r.stdout.strip() else r.returncode)
            results[m["name"]] = rec
            restore()
    finally:
        restore()
        json.dump(results, open(respath, "w"), indent=1, sort_keys=True)
    assert clean()

if __name__ == "__main__":
    main()
