#!/usr/bin/env bash
# tools/seed_eval.sh <ID> [check-id ...]
# Confirms a sub-agent's seeded change (suite green, demo fails with / passes without) and runs
# our checks against it.  Source: /tmp/seed/out-<ID>, /tmp/seed/wt-<ID>.
set -u
ID="$1"; shift
CHECKS="${*:-${ID%b}}"
OUT=/tmp/seed/out-$ID; WT=/tmp/seed/wt-$ID
[ -f "$OUT/patch.diff" ] || { echo "no patch for $ID"; exit 2; }
echo "== patch: $(grep -c '^[-+][^-+]' $OUT/patch.diff) changed lines in $(grep -c '^diff' $OUT/patch.diff) file(s)"
echo "== suite in the modified worktree"; /tmp/seed/tools/run_suite.sh "$WT" | tail -3
echo "== demo on the modified worktree (must fail)"; bash "$OUT/demo.sh" "$WT" </dev/null >/tmp/seed/demo-$ID-mod.log 2>&1; echo "exit=$?"; tail -3 /tmp/seed/demo-$ID-mod.log
echo "== demo on unmodified /repo (must pass)"; git -C /repo status --short | grep -v '^??' | head -2
bash "$OUT/demo.sh" /repo </dev/null >/tmp/seed/demo-$ID-orig.log 2>&1; echo "exit=$?"; tail -2 /tmp/seed/demo-$ID-orig.log
echo "== our checks with the patch applied to /repo"
git -C /repo apply "$OUT/patch.diff" || { echo "patch does not apply"; exit 2; }
for c in $CHECKS; do
  ( cd /verif && ./check $c quick > /tmp/seed/check-$ID-$c.log 2>&1; echo "check $c quick exit=$?"; grep -a -m2 -A1 "VIOLATION" /tmp/seed/check-$ID-$c.log | cut -c1-400 )
done
git -C /repo checkout -- . ; git -C /repo status --short | grep -v '^??' | head
