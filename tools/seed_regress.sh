#!/usr/bin/env bash
# tools/seed_regress.sh [seed-id ...]
# Sensitivity regression over the sub-agent changes kept in seeded/<id>/: applies each patch to
# /repo, runs the quick tier of the property's own check (must exit 1 with a VIOLATION line),
# and restores /repo straight afterwards.  Results: seeded/regress-results.json.
# Never run this while another check is running (both rebuild the same binary).
set -u
ROOT="$(cd "$(dirname "$0")/.." && pwd)"
cd "$ROOT"
[ -z "$(git -C /repo status --short | grep -v '^??')" ] || { echo "/repo has local changes - refusing"; exit 2; }
SEEDS="${*:-$(ls seeded | grep -v '\.json$')}"
tmp=$(mktemp)
echo "{" >"$tmp"
first=1
miss=0
for s in $SEEDS; do
  [ -f "seeded/$s/patch.diff" ] || continue
  prop=$(python3 -c "import json,sys; print(json.load(open('seeded/$s/meta.json'))['breaks_property'])")
  if ! git -C /repo apply "$ROOT/seeded/$s/patch.diff" 2>/dev/null; then
    echo "$s: patch does not apply"; git -C /repo checkout -- .; continue
  fi
  t0=$(date +%s)
  timeout 2400 ./check "$prop" quick >"$ROOT/.cache/seed-regress-$s.log" 2>&1; rc=$?
  git -C /repo checkout -- .
  sub=$(grep -a -m1 -o "sub-check=[a-z0-9-]*" "$ROOT/.cache/seed-regress-$s.log" | head -1)
  [ "$prop" = C18 ] && sub="python-wrapper"
  echo "$s -> $prop quick exit=$rc ${sub:-} ($(( $(date +%s) - t0 )) s)"
  [ $rc -eq 1 ] || miss=$((miss + 1))
  [ $first -eq 1 ] || echo "," >>"$tmp"
  first=0
  printf ' "%s": {"property": "%s", "quick_exit": %d, "first": "%s"}' "$s" "$prop" "$rc" "${sub:-}" >>"$tmp"
done
echo "" >>"$tmp"; echo "}" >>"$tmp"
if [ $# -eq 0 ]; then mv "$tmp" seeded/regress-results.json; else rm -f "$tmp"; fi
# leave the build products matching the unchanged tree again
"$ROOT/tools/build.sh" >/dev/null 2>&1
echo "seeds not caught by the property's own quick check: $miss"
[ $miss -eq 0 ]
