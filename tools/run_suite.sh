#!/usr/bin/env bash
# tools/run_suite.sh <worktree>
# Runs the repository's pinned suite inside a scratch worktree (own target dir) and compares
# with /root/.vp/BASELINE.json.  Prints one line "SUITE: <p> passed, <f> failed; baseline tests
# not passing: <n>" and exits 0 iff n = 0.
set -u
WT="${1:?worktree}"
export CARGO_NET_OFFLINE=true
cd "$WT" || exit 2
rm -f target/nextest/pb/junit.xml
cargo +1.93 nextest run --workspace --no-fail-fast --tool-config-file pb:/verif/tools/nextest.toml \
  --profile pb --test-threads 8 --offline >"$WT/.suite.log" 2>&1
python3 - "$WT" <<'PY'
import json, sys, xml.etree.ElementTree as ET
wt = sys.argv[1]
base = json.load(open('/root/.vp/BASELINE.json'))
want = set(base['stable_pass'])
try:
    root = ET.parse(f'{wt}/target/nextest/pb/junit.xml').getroot()
except Exception as e:
    print('SUITE: no junit output:', e); sys.exit(2)
passed = set(); failed = set()
for ts in root.iter('testsuite'):
    suite = ts.get('name')
    for tc in ts.iter('testcase'):
        name = f"{suite}::{tc.get('name')}"
        bad = any(ch.tag in ('failure', 'error') for ch in tc)
        (failed if bad else passed).add(name)
missing = sorted(want - passed)
print(f"SUITE: {len(passed)} passed, {len(failed)} failed; baseline tests not passing: {len(missing)}")
for m in missing[:20]:
    print('  NOT PASSING:', m)
sys.exit(1 if missing else 0)
PY
