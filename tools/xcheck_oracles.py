#!/usr/bin/env python3-vt
"""Cross-check of the harness's reference models against external references available in
the image (DESIGN.md §4): PEP 440 acceptance + normal form vs `packaging`, on ASCII inputs.
This tests the ORACLE, not zerv, and is not part of any verdict."""
import itertools, json, random, subprocess, sys
from packaging.version import Version, InvalidVersion
ZV = "/verif/.cache/target-harness/debug/zv"

def oracle(kind, items):
    p = subprocess.run([ZV, "oracle", kind], input="\n".join(json.dumps(x) for x in items) + "\n", text=True, capture_output=True)
    assert p.returncode == 0, p.stderr
    return p.stdout.splitlines()

def ref(s):
    # packaging strips surrounding whitespace; the property is about strings without it
    if s != s.strip() or not s.isascii():
        return None
    try:
        return str(Version(s))
    except InvalidVersion:
        return None

syms = list("019abcrpostdevlwih.-_+!V")
items = set()
for n in range(0, 4):
    for t in itertools.product(syms, repeat=n):
        items.add("".join(t)); items.add("1.0" + "".join(t))
rnd = random.Random(1)
toks = ["1", "0", "00", "12", ".", "-", "_", "+", "!", "a", "b", "c", "rc", "alpha", "beta", "pre", "preview", "post", "rev", "r", "dev", "v", "V", "A", "RC", "Post", "DEV", "x", "abc"]
for _ in range(300000):
    items.add("".join(rnd.choice(toks) for _ in range(rnd.randint(1, 9))))
items = sorted(items)
out = oracle("pep440", items)
assert len(out) == len(items)
bad = 0
for s, o in zip(items, out):
    r = ref(s)
    mine = o.split("\t", 1)[1] if o.startswith("ok") else None
    if r != mine:
        bad += 1
        if bad <= 20: print("DISAGREE", repr(s), "packaging:", r, "oracle:", mine)
print(f"pep440 oracle vs packaging: {len(items)} strings, {bad} disagreements")
sys.exit(1 if bad else 0)
