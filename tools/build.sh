#!/usr/bin/env bash
# Rebuild (offline) the real zerv binary and the harness from /repo's current working tree.
set -u
ROOT="$(cd "$(dirname "$0")/.." && pwd)"
export CARGO_NET_OFFLINE=true
mkdir -p "$ROOT/.cache"
(
  # the binary: dev profile (overflow checks + debug assertions on), lightly optimised
  cd /repo && CARGO_PROFILE_DEV_OPT_LEVEL=1 CARGO_PROFILE_DEV_DEBUG=line-tables-only \
  cargo +1.93 build --offline --bin zerv --target-dir "$ROOT/.cache/target-repo" \
    >"$ROOT/.cache/build-repo.log" 2>&1
) &
P1=$!
(
  cd "$ROOT/harness" && cargo +1.93 build --offline --target-dir "$ROOT/.cache/target-harness" \
    >"$ROOT/.cache/build-harness.log" 2>&1
) &
P2=$!
wait $P1; R1=$?
wait $P2; R2=$?
if [ $R1 -ne 0 ]; then tail -30 "$ROOT/.cache/build-repo.log"; fi
if [ $R2 -ne 0 ]; then tail -30 "$ROOT/.cache/build-harness.log"; fi
[ $R1 -eq 0 ] && [ $R2 -eq 0 ]
