#!/usr/bin/env bash
# Runs the repository's pinned suite with the verification guard OFF (no guard is used by
# this machinery, so this is simply the suite) and compares with /root/.vp/BASELINE.json:
# every test of stable_pass must pass.  Exit 0 iff so.
set -u
export CARGO_NET_OFFLINE=true
cd /repo
rm -f target/nextest/pb/junit.xml
cargo nextest run --workspace --no-fail-fast --tool-config-file pb:/verif/tools/nextest.toml \
  --profile pb --test-threads 8 --offline >/tmp/zerv-baseline.log 2>&1
python3 - <<'PY'
import json, sys, xml.etree.ElementTree as ET
base = json.load(open('/root/.vp/BASELINE.json'))
want = set(base['stable_pass'])
try:
    root = ET.parse('/repo/target/nextest/pb/junit.xml').getroot()
except Exception as e:
    print('no junit output:', e); sys.exit(2)
passed = set(); failed = set()
for ts in root.iter('testsuite'):
    suite = ts.get('name')
    for tc in ts.iter('testcase'):
        name = f"{suite}::{tc.get('name')}"
        bad = any(ch.tag in ('failure', 'error') for ch in tc)
        (failed if bad else passed).add(name)
missing = sorted(want - passed)
print(f"baseline: {len(passed)} passed, {len(failed)} failed; stable_pass={len(want)}, missing from passed={len(missing)}")
for m in missing[:40]:
    print('  NOT PASSING:', m)
sys.exit(1 if missing else 0)
PY
